import PikaVerif.Model.Config
import Driver.Util
/-! Driver for the configuration model (C16): computes the expected report of the probe from the
    model, compares it with what the probe printed from inside the running runtime, and runs
    independent monitors (plain tests of the precedence clauses on the observables). -/
namespace Driver.CfgDrv
open PikaVerif PikaVerif.Config PikaVerif.Gen.Settings Driver

def unhex (s : String) : String :=
  if s == "-" then "" else
  let rec go : List Char → List Char
    | a :: b :: rest => Char.ofNat (((hexVal a).getD 0) * 16 + (hexVal b).getD 0) :: go rest
    | _ => []
  String.ofList (go s.toList)

/-- what the probe printed -/
structure Got where
  error : Option String := none
  entered : Bool := false
  rc : Option Int := none
  workers : Nat := 0
  poolWorkers : Nat := 0
  policy : Int := -99
  stack : Nat := 0
  avail : Nat := 0
  cfg : List (String × String) := []
  argv : List String := []
  masks : List String := []
  complete : Bool := false
  notrun : Bool := false
  kind : String := "argv"      -- entry-point variant of the probe (C16f): argv | vm | null

def words (l : String) : List String := (l.splitOn " ").filter (fun w => !w.isEmpty)

def gotStep (g : Got) (l : String) : Got :=
  match words l with
  | ["R", "error", _, msg] => { g with error := some (unhex msg) }
  | ["R", "entry", _] => { g with entered := true }
  | ["R", "argv", i, h] => if i == "0" then g else { g with argv := g.argv ++ [unhex h] }
  | ["R", "workers", n] => { g with workers := n.toNat?.getD 0 }
  | ["R", "pool", _, n] => { g with poolWorkers := n.toNat?.getD 0 }
  | ["R", "sched", p, _] => { g with policy := (parseInt? p).getD (-99) }
  | ["R", "mask", _, m] => { g with masks := g.masks ++ [m] }
  | ["R", "stack", s, a] => { g with stack := s.toNat?.getD 0, avail := a.toNat?.getD 0 }
  | ["R", "cfg", k, h] => { g with cfg := g.cfg ++ [(k, unhex h)] }
  | ["R", "rc", r, _] => { g with rc := parseInt? r }
  | ["R", "end"] => { g with complete := true }
  | ["R", "notrun"] => { g with notrun := true }
  | ["R", "entrykind", k] => { g with kind := k }
  | _ => g

def contains (s sub : String) : Bool := (s.splitOn sub).length > 1

/-- class of a start-up error message -/
def classify (msg : String) : Option Err :=
  if contains msg "cannot be specified more than once" then some .multiple
  else if contains msg "is ambiguous" then some .ambiguous
  else if contains msg "does not take any arguments" then some .extraParam
  else if contains msg "the required argument for option" then some .missingParam
  else if contains msg "should follow immediately after the equal sign" then some .emptyAdjacent
  else if contains msg "the argument (" && contains msg "is invalid" then some .badOptValue
  else if contains msg "bad lexical cast" then some .badLexical
  else if contains msg "Number of --pika:threads must be greater than 0" then some .zeroThreads
  else if contains msg "pika.force_min_os_threads must be greater than 0" then some .zeroMinThreads
  else if contains msg "Invalid command line option --pika:affinity" then some .badAffinity
  else if contains msg "Invalid command line option --pika:pu-step" then some .puStep
  else if contains msg "Invalid command line option --pika:pu-offset" then some .puOffset
  else if contains msg "Invalid argument value for --pika:numa-sensitive" then some .numaSensitive
  else if contains msg "--pika:bind should not be used with" then some .bindConflict
  else if contains msg "number of high priority threads" then some .hpThreads
  else if contains msg "Invalid command line option --pika:high-priority-threads" then some .hpSched
  else if contains msg "Cannot parse line at" then some .iniSyntax
  else if contains msg "Attempt to initialize unknown entry" then some .iniUnknownKey
  else if contains msg "is larger than number of" then some .tooManyThreads
  else if contains msg "Bad value for command line option --pika:scheduler" then some .badScheduler
  else none

def errName (e : Err) : String := (reprStr e).replace "PikaVerif.Config.Err." ""

/-- what the implementation did, in the vocabulary of the model -/
def gotSummary (g : Got) : String :=
  match g.error with
  | some m => match classify m with
    | some e => s!"error:{errName e}"
    | none => s!"error:unclassified({m.take 80})"
  | none =>
    if g.entered then s!"ok workers={g.workers} policy={g.policy} stack={g.stack} argv={g.argv}"
    else s!"not-entered rc={g.rc}"

def cfgKeysList : List String :=
  (settings.map (·.key)) ++ ((written.map (·.1)).filter (fun k => !(settings.map (·.key)).contains k))

def compareOk (r : Report) (g : Got) : List String :=
  let d1 := if g.workers != r.workers then [s!"workers: expected {r.workers}, runtime has {g.workers}"] else []
  let d1b := if g.poolWorkers != r.workers then [s!"default pool: expected {r.workers} threads, has {g.poolWorkers}"] else []
  let d2 := if g.policy != (r.policy : Int) then [s!"scheduling policy: expected {r.policy}, runtime has {g.policy}"] else []
  let d3 := if g.stack != r.stackSmall then [s!"stack of a default task: expected {r.stackSmall}, is {g.stack}"] else []
  let d3b := if g.avail > g.stack || g.stack - g.avail > 4096 then [s!"available stack {g.avail} of {g.stack}"] else []
  let d4 := if g.argv != r.argv then [s!"argv of entry function: expected {r.argv}, got {g.argv}"] else []
  let d5 := r.cfg.filterMap (fun (k, v) =>
    match g.cfg.find? (fun p => p.1 == k) with
    | some (_, v') => if v' != v then some s!"{k}: expected '{v}', runtime has '{v'}'" else none
    | none => if (cfgKeysList.contains k) then some s!"{k}: not reported" else none)
  let d6 := if g.masks.length != r.workers then [s!"{g.masks.length} worker masks for {r.workers} workers"] else []
  let bindNone := cfgLookup r.cfg "pika.bind" == "none"
  let d7 := if bindNone && g.masks.any (· != "-") then ["pika.bind=none but some workers have an affinity mask"]
    else if !bindNone && g.masks.any (· == "-") then [s!"pika.bind={cfgLookup r.cfg "pika.bind"} but some workers have no affinity mask"] else []
  d1 ++ d1b ++ d2 ++ d3 ++ d3b ++ d4 ++ d5 ++ d6 ++ d7

/-! ## independent monitors: the precedence clauses tested directly on the observables -/

def argLong (a : String) : Option (String × String) :=
  match a.toList with
  | '-' :: '-' :: body =>
    match splitEq body with
    | (n, some v) => some (String.ofList n, String.ofList v)
    | _ => none
  | _ => none

/-- `--pika:<full name>=<value>`, `--pika:<full flag name>`, an unknown `--pika:` option, or not a pika option -/
def strictArg (a : String) : Bool :=
  if !isPrefix "--pika:" a then true else
  let (n, v) := splitEq (a.toList.drop 2)
  let name := String.ofList n
  match cliOpts.find? (fun r => r.name == name) with
  | some r => if r.kind == .flag then v.isNone else v.isSome
  | none => (match lookupOpt cliOpts name with | .none => true | _ => false)

def allDigits (s : String) : Bool := !s.isEmpty && s.toList.all isDigit

/-- no quote character, no backslash -/
def plainWord (s : String) : Bool := !s.toList.any (fun c => c == '"' || c == '\'' || c == '\\')

/-- Monitors only speak about cases that are unambiguous at the level of the property text:
    every argument is `--pika:<full option name>=<value>`, a positional word, or an unknown option. -/
def monitors (m : Machine) (inp : Input) (g : Got) : List String :=
  let longs := inp.argv.filterMap argLong
  let count (o : String) := (longs.filter (fun p => p.1 == o)).length
  let envOf (v : String) := (inp.env.find? (fun p => p.1 == v)).map (·.2)
  let prepend := (envOf "PIKA_COMMANDLINE_OPTIONS").getD ""
  let inis := (longs.filter (fun p => p.1 == "pika:ini")).map (·.2)
  let iniFor (k : String) := inis.filter (fun s => isPrefix (k ++ "=") s || isPrefix (k ++ "!=") s)
  let cfgOf (k : String) := (g.cfg.find? (fun p => p.1 == k)).map (·.2)
  if g.notrun then [] else
  if !g.complete then ["probe did not finish its report"] else
  -- only inputs whose meaning is fixed by the property text: full option names, `=` form
  if !inp.argv.all strictArg then [] else
  if !prepend.isEmpty then [] else
  let ok := g.entered && g.error.isNone
  -- (1) command line over environment / ini / default, string-valued and numeric rows
  let m1 := settings.filterMap (fun s =>
    match s.opt with
    | some o =>
      if count o == 1 && ok && o != "pika:bind" && o != "pika:threads" && o != "pika:cores" && o != "pika:ignore-process-mask" then
        let v := ((longs.find? (fun p => p.1 == o)).map (·.2)).getD ""
        let want := if allDigits v then toString (digitsVal v.toList) else v
        match cfgOf s.key with
        | some got => if got != want then some s!"command line --{o}={v} but the runtime uses {s.key}='{got}'" else none
        | none => none
      else none
    | none => none)
  -- (2) threads given on the command line is the number of workers
  let m2 := if count "pika:threads" == 1 && ok then
      let v := ((longs.find? (fun p => p.1 == "pika:threads")).map (·.2)).getD ""
      if allDigits v && digitsVal v.toList ≤ m.pus && digitsVal v.toList ≥ 1 && (iniFor "pika.force_min_os_threads").isEmpty
          && g.workers != digitsVal v.toList then
        [s!"command line --pika:threads={v} but the runtime has {g.workers} workers"]
      else if (iniFor "pika.force_min_os_threads").isEmpty && m.maskPus == m.pus && m.maskCores == m.cores &&
          ((v == "cores" && g.workers != m.cores) || (v == "all" && g.workers != m.pus)) then
        [s!"command line --pika:threads={v} on {m.cores} cores / {m.pus} PUs but the runtime has {g.workers} workers"]
      else []
    else []
  -- (3) ini over environment over default, for rows without command-line option or when it is absent
  let m3 := settings.filterMap (fun s =>
    let cliAbsent := match s.opt with | some o => count o == 0 | none => true
    if ok && cliAbsent && s.key != "pika.cores" && s.key != "pika.os_threads" && s.key != "pika.bind"
        && s.key != "pika.ignore_process_mask" && s.key != "pika.process_mask" then
      let src := match iniFor s.key with
        | [one] => (splitIni one).map (·.2)
        | [] => (match s.env with
          | some e => (match envOf e with | some v => some v | none => some s.dflt)
          | none => some s.dflt)
        | _ => none
      match src, cfgOf s.key with
      | some v, some got =>
        let numeric := s.opt.isSome && (s.key == "pika.pu_step" || s.key == "pika.pu_offset" || s.key == "pika.numa_sensitive")
        if numeric then
          (if allDigits v && got != toString (digitsVal v.toList) then some s!"{s.key} configured as '{v}' but the runtime uses '{got}'" else none)
        else if got != v then some s!"{s.key} configured as '{v}' but the runtime uses '{got}'" else none
      | _, _ => none
    else none)
  -- (4) environment / ini thread count is the number of workers when no command-line option is given
  let m4 := if ok && count "pika:threads" == 0 then
      let src := match iniFor "pika.os_threads" with
        | [one] => (splitIni one).map (·.2)
        | [] => envOf "PIKA_THREADS"
        | _ => none
      match src with
      | some v => if allDigits v && digitsVal v.toList ≥ 1 && digitsVal v.toList ≤ m.pus
          && (iniFor "pika.force_min_os_threads").isEmpty && g.workers != digitsVal v.toList then
          [s!"thread count configured as {v} but the runtime has {g.workers} workers"] else []
      | none => []
    else []
  -- (5) the live runtime agrees with its own configuration
  let m5 := if ok then
      (match cfgOf "pika.os_threads" with
       | some t => if allDigits t && digitsVal t.toList ≤ m.pus && g.workers != digitsVal t.toList then
           [s!"pika.os_threads={t} but {g.workers} workers run"] else []
       | none => []) ++
      (match cfgOf "pika.scheduler" with
       | some sname => if (schedulerPolicy sname).map (fun (p : Nat) => (p : Int)) != some g.policy then
           [s!"pika.scheduler='{sname}' but the default pool runs policy {g.policy}"] else []
       | none => [])
    else []
  -- (6) unknown --pika: options and invalid numbers stop start-up
  let allowUnknown := (envOf "PIKA_COMMANDLINE_ALLOW_UNKNOWN").getD "0" != "0"
  let unknownPika := inp.argv.any (fun a => isPrefix "--pika:" a &&
    (match lookupOpt cliOpts (String.ofList (splitEq (a.toList.drop 2)).1) with | .none => true | _ => false))
  let m6 := if unknownPika && !allowUnknown && g.entered && (iniFor "pika.commandline.allow_unknown").isEmpty then
      ["an unknown --pika: option was ignored: the entry function ran"] else []
  let badNum := longs.any (fun p => (p.1 == "pika:pu-step" || p.1 == "pika:pu-offset" || p.1 == "pika:threads")
    && !allDigits p.2 && p.2 != "all" && p.2 != "cores" && !(p.2.toList.any (fun c => c == '-' || c == '+')))
  let m7 := if badNum && g.entered then ["a malformed number on the command line was ignored: the entry function ran"] else []
  let zeroThreads := longs.any (fun p => p.1 == "pika:threads" && allDigits p.2 && digitsVal p.2.toList == 0)
  let m8 := if zeroThreads && g.entered then ["--pika:threads=0 was accepted"] else []
  -- (7) positional arguments reach the entry function unchanged and in order
  let positional := inp.argv.filter (fun a => !isPrefix "-" a && !isPrefix "@" a)
  let valueLess := inp.argv.any (fun a => isPrefix "--" a && (argLong a).isNone)
  let m9 := if ok && !valueLess && positional.all plainWord && !(g.kind == "vm" && allowUnknown)
      && (g.argv.filter (fun a => !isPrefix "-" a)) != positional then
      [s!"positional arguments {positional} reached the entry function as {g.argv}"] else []
  -- (8) binding given on the command line is in force: none = no masks, anything else = every worker bound
  let m10 := if ok && count "pika:bind" == 1 then
      let v := ((longs.find? (fun p => p.1 == "pika:bind")).map (·.2)).getD ""
      if v == "none" && g.masks.any (· != "-") then ["command line --pika:bind=none but workers are bound"]
      else if v != "none" && g.masks.any (· == "-") then [s!"command line --pika:bind={v} but some workers are not bound"] else []
    else []
  m1 ++ m2 ++ m3 ++ m4 ++ m5 ++ m6 ++ m7 ++ m8 ++ m9 ++ m10


/-! ## C16f: the clauses of the property *as stated*, on the input classes the monitors above are silent
    about (PIKA_COMMANDLINE_OPTIONS present, `pika.cores` / `pika.bind` / `pika.ignore_process_mask` from the
    environment, malformed numbers from every source, more threads than PUs, `--pika:pu-step` /
    `--pika:pu-offset` alone, positional arguments with quote characters, entry-point variants).
    Where the pinned tree deviates, the message has a stable shape naming the input class, so that a
    `finding:` line of known_findings.txt can match exactly that class and nothing else. -/

/-- tokens of PIKA_COMMANDLINE_OPTIONS (blank separated; quoting there is outside the strict fragment) -/
def preTokens (s : String) : Option (List String) :=
  if s.isEmpty then some [] else
  if s.toList.any (fun c => c == '"' || c == '\\' || c == '\t' || c == '\'') then none else
  let ts := splitBlank [] s.toList
  if ts.any (·.isEmpty) then none else some ts

def isHexNum (s : String) : Bool :=
  match s.toList with
  | '0' :: 'x' :: r => !r.isEmpty && r.all (fun c => (hexVal c).isSome)
  | _ => false

/-- rows of the settings table whose value is a number -/
def numericSetting (s : Setting) : Bool :=
  s.key == "pika.os_threads" || s.key == "pika.cores" ||
  ((allDigits s.dflt || isHexNum s.dflt) && s.key != "pika.attach_debugger" && !isPrefix "pika.log." s.key
    && !isPrefix "pika.commandline." s.key)

/-- signs, blanks, huge numbers: not judged -/
def oddNumber (v : String) : Bool :=
  v.toList.any (fun c => c == '-' || c == '+' || c == ' ' || c == '\t') || (allDigits v && v.length > 18)

def wellFormed (s : Setting) (v : String) : Bool :=
  allDigits v || (isHexNum s.dflt && isHexNum v) ||
  (s.key == "pika.os_threads" && (v == "all" || v == "cores")) || (s.key == "pika.cores" && v == "all")

def isFlagOpt (o : String) : Bool :=
  match cliOpts.find? (fun r => r.name == o) with
  | some r => r.kind == .flag
  | none => false

def optValues (args : List String) (o : String) : List String :=
  args.filterMap (fun a =>
    if isFlagOpt o then (if a == "--" ++ o then some "1" else none)
    else match argLong a with
      | some (n, v) => if n == o then some v else none
      | none => none)

def iniValues (args : List String) (k : String) : List String :=
  args.filterMap (fun a =>
    match argLong a with
    | some (n, v) => if n == "pika:ini" && (isPrefix (k ++ "=") v || isPrefix (k ++ "!=") v) then (splitIni v).map (·.2) else none
    | none => none)

/-- where a setting is given -/
structure Sources where
  cliOpt : List String      -- `--<option>=v` on the command line
  cliIni : List String      -- `--pika:ini=<key>=v` on the command line
  preOpt : List String      -- the same two inside PIKA_COMMANDLINE_OPTIONS
  preIni : List String
  env : Option String       -- the row's environment variable
  envEmpty : Bool := false  -- the variable is set but empty: not judged

def sourcesOf (argv pre : List String) (envOf : String → Option String) (s : Setting) : Sources :=
  { cliOpt := (match s.opt with | some o => optValues argv o | none => []),
    cliIni := iniValues argv s.key,
    preOpt := (match s.opt with | some o => optValues pre o | none => []),
    preIni := iniValues pre s.key,
    env := (match s.env with
      | some e => (match envOf e with | some v => if v.isEmpty then none else some v | none => none)
      | none => none),
    envEmpty := (match s.env with
      | some e => envOf e == some ""
      | none => false) }

/-- The source that must win according to the property text, with its value: command line option >
    command-line `--pika:ini` > PIKA_COMMANDLINE_OPTIONS (option or `--pika:ini`) > environment variable >
    built-in default.  `none` where the text fixes no order (same option twice in one place; a
    PIKA_COMMANDLINE_OPTIONS *option* against a command-line *ini entry*; option and ini entry of one key
    both inside PIKA_COMMANDLINE_OPTIONS). -/
def winner (x : Sources) (s : Setting) : Option (String × String) :=
  match x.cliOpt with
  | _ :: _ :: _ => none
  | [v] => some ("the command line", v)
  | [] =>
    match x.cliIni with
    | _ :: _ :: _ => none
    | [v] => if x.preOpt.isEmpty then some ("--pika:ini", v) else none
    | [] =>
      match x.preOpt with
      | _ :: _ :: _ => none
      | [v] => if x.preIni.isEmpty then some ("PIKA_COMMANDLINE_OPTIONS", v) else none
      | [] =>
        match x.preIni with
        | _ :: _ :: _ => none
        | [v] => some ("--pika:ini in PIKA_COMMANDLINE_OPTIONS", v)
        | [] =>
          match x.env with
          | some v => some ("the environment", v)
          | none => if x.envEmpty then none else some ("the built-in default", s.dflt)

def isWritten (k : String) : Bool := written.any (fun p => p.1 == k)

/-- the configuration entry the running runtime must report for value `v` of row `s` (`none`: not judged) -/
def expectEntry (m : Machine) (s : Setting) (v : String) (minThreadsGiven : Bool) : Option String :=
  let full := m.maskPus == m.pus && m.maskCores == m.cores
  if s.key == "pika.process_mask" || v.isEmpty || (numericSetting s && oddNumber v) then none
  else if s.key == "pika.os_threads" then
    (if minThreadsGiven then none
     else if allDigits v then (if digitsVal v.toList ≥ 1 then some (toString (digitsVal v.toList)) else none)
     else if v == "cores" && full then some (toString m.cores)
     else if v == "all" && full then some (toString m.pus) else none)
  else if s.key == "pika.cores" then
    (if allDigits v then some (toString (digitsVal v.toList)) else if v == "all" && full then some (toString m.cores) else none)
  else if s.key == "pika.ignore_process_mask" then (if v == "0" || v == "1" then some v else none)
  else if numericSetting s then
    (if !wellFormed s v then none
     else if isWritten s.key && allDigits v then some (toString (digitsVal v.toList)) else some v)
  else some v

def monitors2 (m : Machine) (inp : Input) (g : Got) : List String :=
  let envOf (v : String) := (inp.env.find? (fun p => p.1 == v)).map (·.2)
  let prepend := (envOf "PIKA_COMMANDLINE_OPTIONS").getD ""
  let cfgOf (k : String) := (g.cfg.find? (fun p => p.1 == k)).map (·.2)
  if g.notrun || !g.complete then [] else
  if !inp.argv.all strictArg then [] else
  match preTokens prepend with
  | none => []
  | some pre =>
  if !pre.all strictArg then [] else
  let ok := g.entered && g.error.isNone
  let errCls := g.error.bind classify
  let minThreadsGiven := !(iniValues (pre ++ inp.argv) "pika.force_min_os_threads").isEmpty
  let srcOf (s : Setting) := sourcesOf inp.argv pre envOf s
  -- rows the first monitors already judge when PIKA_COMMANDLINE_OPTIONS is absent
  let oldCovers (s : Setting) (x : Sources) (v : String) : Bool :=
    prepend.isEmpty &&
    (if !x.cliOpt.isEmpty then s.key != "pika.cores" && s.key != "pika.bind" && s.key != "pika.ignore_process_mask"
       && !(s.key == "pika.os_threads" && !allDigits v)
     else s.key != "pika.cores" && s.key != "pika.bind" && s.key != "pika.ignore_process_mask" && s.key != "pika.process_mask"
       && !(s.key == "pika.os_threads" && !allDigits v))
  -- (a)+(b) precedence, for every row of the table
  let p1 := settings.filterMap (fun s =>
    let x := srcOf s
    match winner x s with
    | none => none
    | some (src, v) =>
      if !ok || oldCovers s x v || src == "the built-in default" && (s.key == "pika.cores" || s.key == "pika.os_threads" || s.key == "pika.bind") then none else
      match expectEntry m s v minThreadsGiven, cfgOf s.key with
      | some want, some got =>
        if got == want then none
        else if src == "the command line" && !x.preOpt.isEmpty then
          some s!"an option given in PIKA_COMMANDLINE_OPTIONS and on the command line: the command line must win but the runtime uses another value ({s.key}='{got}', command line '{v}')"
        else if src == "--pika:ini" && !x.preIni.isEmpty then
          let cls := if isWritten s.key then "a key with a start-up handler" else "a plain key"
          let which := if some got == expectEntry m s (x.preIni.headD "") minThreadsGiven then "the PIKA_COMMANDLINE_OPTIONS value" else "another value"
          some s!"--pika:ini entry given in PIKA_COMMANDLINE_OPTIONS and on the command line for {cls}: the command-line entry must win but the runtime uses {which} ({s.key}='{got}', command line '{v}')"
        else if src == "the environment" then
          some s!"environment variable {s.env.getD ""} is set to '{v}' and neither command line nor ini gives {s.key}, but the runtime uses '{got}'"
        else some s!"{s.key} is given as '{v}' by {src} (the highest-precedence source present) but the runtime uses '{got}'"
      | _, _ => none)
  -- (a) an option in PIKA_COMMANDLINE_OPTIONS and on the command line: start-up must not stop with "more than once"
  let single (o : String) := !composing o
  let twiceIn (args : List String) := cliOpts.any (fun r => single r.name && (optValues args r.name).length ≥ 2)
  let p2 := if errCls == some .multiple && !twiceIn inp.argv && !twiceIn pre then
      match cliOpts.find? (fun r => single r.name && (optValues inp.argv r.name).length == 1 && (optValues pre r.name).length == 1) with
      | some r => [s!"an option given in PIKA_COMMANDLINE_OPTIONS and on the command line: the command line must win but start-up stopped: cannot be specified more than once (--{r.name})"]
      | none => []
    else []
  -- (c) a malformed number in the winning source of a numeric row stops start-up
  let p3 := settings.filterMap (fun s =>
    let x := srcOf s
    if !numericSetting s || !g.entered then none else
    match winner x s with
    | none => none
    | some (src, v) =>
      let oldM7 := prepend.isEmpty && src == "the command line" &&
        (s.key == "pika.pu_step" || s.key == "pika.pu_offset" || s.key == "pika.os_threads")
      -- (a value that loses against PIKA_COMMANDLINE_OPTIONS belongs to the precedence classes above)
      let shadowed := (src == "the command line" && !x.preOpt.isEmpty) || (src == "--pika:ini" && !x.preIni.isEmpty)
      if v.isEmpty || oddNumber v || wellFormed s v || src == "the built-in default" || oldM7 || shadowed
          || isFlagOpt (s.opt.getD "") && src == "the command line" then none else
      let cls := if s.key == "pika.os_threads" then "the thread count" else "a numeric setting other than the thread count"
      let srcN := if src == "--pika:ini in PIKA_COMMANDLINE_OPTIONS" then "--pika:ini" else src
      some s!"malformed number from {srcN} for {cls} was ignored ({s.key}='{v}'): the entry function ran")
  -- (d) the resolved thread count is the number of workers, for every binding mode (or start-up is refused)
  let p4 := if ok then
      (match cfgOf "pika.os_threads" with
       | some t => if allDigits t && digitsVal t.toList > m.pus && g.workers != digitsVal t.toList then
           [s!"pika.os_threads={t} but {g.workers} workers run (more threads than processing units, bind {(cfgOf "pika.bind").getD "?"})"] else []
       | none => [])
    else []
  -- (e) `--pika:pu-step=N` / `--pika:pu-offset=N` alone, valid value, nothing else configured
  let pikaArgs := (pre ++ inp.argv).filter (fun a => isPrefix "--pika:" a)
  let quiet := ["PIKA_BIND", "PIKA_AFFINITY", "PIKA_PU_STEP", "PIKA_PU_OFFSET", "PIKA_THREADS", "PIKA_CORES",
                "PIKA_IGNORE_PROCESS_MASK", "PIKA_PROCESS_MASK", "PIKA_NUMA_SENSITIVE", "PIKA_SCHEDULER"].all (fun e => (envOf e).isNone)
  let p5 := match pikaArgs with
    | [a] =>
      (match argLong a with
       | some (o, v) =>
         let valid := allDigits v && !oddNumber v &&
           ((o == "pika:pu-step" && digitsVal v.toList ≥ 1 && (digitsVal v.toList < m.pus || m.pus == 1)) ||
            (o == "pika:pu-offset" && digitsVal v.toList < m.pus))
         if (o == "pika:pu-step" || o == "pika:pu-offset") && valid && quiet && prepend.isEmpty then
           (if errCls == some .bindConflict then
              [s!"command line --{o}={v} alone (valid value, nothing else configured) was refused: the built-in default bind counts as an explicit --pika:bind"]
            else if g.error.isSome then [s!"command line --{o}={v} alone (valid value, nothing else configured) was refused: {gotSummary g}"]
            else [])
         else []
       | none => [])
    | _ => []
  -- (f) positional arguments with quote characters or backslashes; positionals with PIKA_COMMANDLINE_OPTIONS
  let isPos (a : String) := !isPrefix "-" a && !isPrefix "@" a
  let positional := (pre ++ inp.argv).filter isPos
  let valueLess := (pre ++ inp.argv).any (fun a => isPrefix "--" a && (argLong a).isNone && !isFlagOpt (String.ofList (a.toList.drop 2)))
  let special := !positional.all plainWord
  let gotPos := g.argv.filter isPos
  let unknownGiven := (pre ++ inp.argv).any (fun a => isPrefix "-" a && !isPrefix "--pika:" a)
  let vmUnknown := g.kind == "vm" && (cfgOf "pika.commandline.allow_unknown").getD "0" != "0"
  let p6 :=
    if valueLess || vmUnknown then []
    else if special then
      (if ok && gotPos != (if g.kind == "null" then inp.argv.filter isPos else positional) then
         [s!"a positional argument containing a quote character or a backslash reached the entry function changed (entry point {g.kind}): {positional} became {gotPos}"]
       else if !g.entered && g.error.isNone && g.rc == some (-1) && !unknownGiven
           && !(pre ++ inp.argv).any (fun a => isPrefix "--pika:" a && (match lookupOpt cliOpts (String.ofList (splitEq (a.toList.drop 2)).1) with | .none => true | _ => false)) then
         [s!"a positional argument containing a quote character or a backslash stopped start-up (entry point {g.kind}): {positional}"]
       else [])
    else if !prepend.isEmpty && ok && g.kind != "null" && gotPos != positional then
      [s!"positional arguments {positional} (PIKA_COMMANDLINE_OPTIONS first, then the command line) reached the entry function as {g.argv}"]
    else []
  -- (g) entry point `null`: the application's own argv is untouched
  let p7 := if ok && g.kind == "null" && g.argv != inp.argv then
      [s!"pika::start(nullptr, ...) changed the application's argv: {inp.argv} became {g.argv}"] else []
  p1 ++ p2 ++ p3 ++ p4 ++ p5 ++ p6 ++ p7

def parseInput (c : Case) : Input × Got :=
  c.lines.foldl (fun (acc : Input × Got) l =>
    match words l with
    | ["env", n, v] => ({ acc.1 with env := acc.1.env ++ [(unhex n, unhex v)] }, acc.2)
    | ["arg", a] => ({ acc.1 with argv := acc.1.argv ++ [unhex a] }, acc.2)
    | _ => (acc.1, gotStep acc.2 l)) ({ env := [], argv := [] }, {})

def runCase (c : Case) : String :=
  let m : Machine := { pus := c.getNat "pus", cores := c.getNat "cores", maskPus := c.getNat "maskpus",
                       maskCores := c.getNat "maskcores" }
  let (inp, g) := parseInput c
  let mon := monitors m inp g ++ monitors2 m inp g
  let monS := if mon.isEmpty then "monitors ok" else "monitors FAIL: " ++ " | ".intercalate mon
  let gs := gotSummary g
  match resolve m inp with
  | .unsupported w => s!"case {c.id} skip [{w}] ; impl {gs} ; {monS}"
  | .error e =>
    let same := match g.error with
      | some msg => classify msg == some e
      | none => e == .unknownOption && !g.entered && g.rc == some (-1)
    if same && g.complete then s!"case {c.id} accept error:{errName e} ; {monS}"
    else s!"case {c.id} reject 0 [model error:{errName e} ; impl {gs}] ; {monS}"
  | .ok r =>
    -- C16f entry-point variants: `vm` reads vm["pika:positional"] (not registered when unknown options are
    -- allowed), `null` has no entry function: the application keeps its own argv
    let allowUnknown := cfgLookup r.cfg "pika.commandline.allow_unknown" != "0"
    let r := if g.kind == "null" then { r with argv := inp.argv }
      else if g.kind == "vm" && allowUnknown then { r with argv := [] } else r
    if g.error.isSome || !g.entered || !g.complete then
      s!"case {c.id} reject 0 [model ok workers={r.workers} policy={r.policy} ; impl {gs}] ; {monS}"
    else
      match compareOk r g with
      | [] =>
        let bk := s!"{cfgLookup r.cfg "pika.bind"}/{cfgLookup r.cfg "pika.os_threads"}/{cfgLookup r.cfg "pika.cores"}/{cfgLookup r.cfg "pika.ignore_process_mask"}"
        s!"case {c.id} accept ok workers={r.workers} policy={r.policy} stack={r.stackSmall} argc={r.argv.length} bindkey={bk} ; {monS}"
      | ds => s!"case {c.id} reject 0 [{" | ".intercalate ds}] ; {monS}"

/-- keys the probe is asked to report -/
def cfgKeys : String := ",".intercalate cfgKeysList

end Driver.CfgDrv
