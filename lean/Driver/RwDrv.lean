import PikaVerif.Model.Rw
import Driver.Util
/-! Driver for the async_rw_mutex model (C04): parser, acceptor run, independent monitors. -/
namespace Driver.RwDrv
open PikaVerif PikaVerif.Rw Driver

def lookup (m : List (Nat × Nat)) (k : Nat) : Option Nat := (m.find? (fun p => p.1 == k)).map (·.2)

/-- Pass 1: the `reqd` lines give, per access, the object id of its shared state; shared states
    are numbered in order of first appearance (the harness allocator never reuses an address). -/
structure Tab where
  accObj : List (Nat × Nat) := []     -- access ↦ object id of its shared state
  objGrp : List (Nat × Nat) := []     -- object id ↦ group index
  deriving Repr

def mkTab (ls : List Line) : Tab :=
  ls.foldl (fun tb l =>
    if l.site == "reqd" then
      let tb := { tb with accObj := tb.accObj ++ [(l.a.toNat, l.obj)] }
      match lookup tb.objGrp l.obj with
      | some _ => tb
      | none => { tb with objGrp := tb.objGrp ++ [(l.obj, tb.objGrp.length)] }
    else tb) {}

def Tab.newg (tb : Tab) (a : Nat) : Option Bool :=
  match lookup tb.accObj a with
  | none => none
  | some o => if a == 0 then some true else
    match lookup tb.accObj (a - 1) with
    | none => none
    | some o' => some (o != o')

/-- Auxiliary lines emitted in the same atomic block as a main event. -/
structure Aux where
  dtor : Option Nat := none        -- object id of the shared state destroyed
  ack : Option Nat := none         -- access reported by the harness receiver
  vfree : Bool := false
  bad : Bool := false
  raw : String := ""

partial def takeAux (t : Nat) : List Line → Aux → Aux × List Line
  | [], ax => (ax, [])
  | l :: rest, ax =>
    if l.tid != t then (ax, l :: rest) else
    match l.site with
    | "arw.dtor" => takeAux t rest { ax with dtor := some l.obj, bad := ax.bad || ax.dtor.isSome, raw := ax.raw ++ " + " ++ l.raw }
    | "granted" => takeAux t rest { ax with ack := some l.a.toNat, bad := ax.bad || ax.ack.isSome, raw := ax.raw ++ " + " ++ l.raw }
    | "vfree" => takeAux t rest { ax with vfree := true, bad := ax.bad || ax.vfree, raw := ax.raw ++ " + " ++ l.raw }
    | _ => (ax, l :: rest)

abbrev Out := List (Option Ev × String)

/-- Translate hook / harness lines to model events.  `op`, `spin`, `reqd`, `done` carry no state
    change and are dropped.  A POINT line (`arw.load`, `arw.cas`, `arw.xchg`) must be followed at
    once by its payload line of the same thread. -/
partial def toEvents (tb : Tab) : List Line → (Nat → Nat) → Out → Out
  | [], _, acc => acc.reverse
  | l :: rest, cur, acc =>
    let t := l.tid
    let bad (why : String) : Out := ((none, why ++ ": " ++ l.raw) :: acc).reverse
    -- emit `e` (+ a `vfree` event when the value's destructor ran in this block)
    let emit (e : Ev) (ax : Aux) (rest' : List Line) (cur' : Nat → Nat) : Out :=
      let acc1 := (some e, l.raw ++ ax.raw) :: acc
      let acc2 := if ax.vfree then (some (Ev.vfree t), "vfree") :: acc1 else acc1
      toEvents tb rest' cur' acc2
    -- the shared state destroyed (if any) must be the expected one
    let diedOk (ax : Aux) (expect : Option Nat) : Option Bool :=
      match ax.dtor with
      | none => some false
      | some o => if some o == expect then some true else none
    match l.site with
    | "op" | "spin" | "reqd" | "done" => toEvents tb rest cur acc
    | "req" =>
      let a := l.a.toNat
      let (ax, rest') := takeAux t rest {}
      match tb.newg a, diedOk ax (lookup tb.accObj (a - 1)) with
      | some ng, some d =>
        if ax.bad || ax.ack.isSome then bad "aux" else emit (.req t a (l.b != 0) ng d) ax rest' cur
      | _, _ => bad "req"
    | "destroy" =>
      let (ax, rest') := takeAux t rest {}
      let lastObj := (tb.objGrp.getLast?).map (·.1)
      match diedOk ax lastObj with
      | some d => if ax.bad || ax.ack.isSome then bad "aux" else emit (.destroy t d) ax rest' cur
      | none => bad "destroy"
    | "start" => emit (.start t l.a.toNat (l.b != 0)) {} rest (upd cur t l.a.toNat)
    | "arw.load" | "arw.cas" =>
      match rest with
      | r :: rest1 =>
        let a := cur t
        if r.tid != t || r.obj != l.obj || some l.obj != lookup tb.accObj a then bad "obj" else
        let (ax, rest') := takeAux t rest1 {}
        let ackOk := match ax.ack with | none => some false | some a' => if a' == a then some true else none
        match ackOk, diedOk ax (some l.obj) with
        | some k, some d =>
          if ax.bad then bad "aux" else
          if l.site == "arw.load" && r.site == "arw.loaded" then
            emit (.load t a r.a.toNat k d) { ax with raw := " + " ++ r.raw ++ ax.raw } rest' cur
          else if l.site == "arw.cas" && r.site == "arw.casd" then
            emit (.cas t a (r.a != 0) r.b.toNat k d) { ax with raw := " + " ++ r.raw ++ ax.raw } rest' cur
          else bad "pair"
        | _, _ => bad "ack"
      | [] => bad "pair"
    | "arw.xchg" =>
      match rest, lookup tb.objGrp l.obj with
      | r :: rest1, some g =>
        if r.tid == t && r.site == "arw.xchgd" && r.obj == l.obj && r.b == 2 then
          emit (.xchg t g r.a.toNat) { raw := " + " ++ r.raw } rest1 cur
        else bad "pair"
      | _, _ => bad "xchg"
    | "arw.cont" =>
      let (ax, rest') := takeAux t rest {}
      match lookup tb.objGrp l.obj, diedOk ax (some l.obj) with
      | some g, some d => if ax.bad then bad "aux" else emit (.cont t g ax.ack d) ax rest' cur
      | _, _ => bad "cont"
    | "copy" => emit (.copy t l.a.toNat) {} rest cur
    | "rel" =>
      let (ax, rest') := takeAux t rest {}
      match diedOk ax (lookup tb.accObj l.a.toNat) with
      | some d => if ax.bad || ax.ack.isSome then bad "aux" else emit (.rel t l.a.toNat d) ax rest' cur
      | none => bad "rel"
    | "write" => emit (.write t l.a.toNat l.b.toNat) {} rest cur
    | "readv" => emit (.readv t l.a.toNat l.b.toNat) {} rest cur
    | "vfree" => emit (.vfree t) {} rest cur
    | _ => bad "unexpected"

/-- Run the acceptor; returns the final state or the index and text of the rejected event. -/
def accept (s : St) : Out → Nat → Except (Nat × String) St
  | [], _ => .ok s
  | (none, raw) :: _, i => .error (i, "unparsed " ++ raw)
  | (some e, raw) :: rest, i =>
    match step s e with
    | some s' => accept s' rest (i + 1)
    | none => .error (i, raw)

/-! Independent monitors on the raw lines (tests, not proofs): they recompute the property from
    the harness' own observations only (`req`/`reqd`, `start`, `granted`, `copy`, `rel`, `write`,
    `readv`, `vfree`). -/
structure Mon where
  isW : Nat → Bool := fun _ => false
  objOf : Nat → Nat := fun _ => 0          -- shared state (object id) of an access
  nreq : Nat := 0
  started : Nat → Bool := fun _ => false
  detached : Nat → Bool := fun _ => false
  grants : Nat → Nat := fun _ => 0
  held : Nat → Nat := fun _ => 0           -- live wrappers
  writes : Nat := 0
  vfreed : Bool := false
  viol : List String := []

def Mon.heldList (m : Mon) : List Nat := (List.range m.nreq).filter (fun a => m.held a > 0)

def monStep (m : Mon) (l : Line) : Mon :=
  let a := l.a.toNat
  match l.site with
  | "reqd" => { m with isW := upd m.isW a (l.b != 0), objOf := upd m.objOf a l.obj, nreq := max m.nreq (a + 1) }
  | "start" => { m with started := upd m.started a true, detached := upd m.detached a (l.b != 0) }
  | "granted" =>
    let others := m.heldList.filter (· != a)
    let v1 := if m.grants a > 0 then [s!"access {a} granted twice"] else []
    let v2 := if m.isW a && !others.isEmpty then
        [s!"readwrite access {a} granted while accesses {others} are still held"] else []
    let v3 := (others.filter (fun b => m.isW b || m.objOf b != m.objOf a)).map
        (fun b => s!"access {a} granted while access {b} (readwrite or of another group) is still held")
    -- request order: every non-detached access requested earlier in another group was granted and released
    let v4 := ((List.range a).filter (fun b => m.objOf b != m.objOf a && !m.detached b &&
          (m.grants b == 0 || m.held b > 0))).map
        (fun b => s!"access {a} granted before the earlier access {b} was granted and released")
    let v5 := if m.vfreed then [s!"access {a} granted after the wrapped value was destroyed"] else []
    { m with grants := upd m.grants a (m.grants a + 1), held := upd m.held a (m.held a + 1),
             viol := m.viol ++ v1 ++ v2 ++ v3 ++ v4 ++ v5 }
  | "copy" => { m with held := upd m.held a (m.held a + 1) }
  | "rel" => { m with held := upd m.held a (m.held a - 1) }
  | "write" =>
    let m := { m with writes := m.writes + 1 }
    if l.b != (m.writes : Int) then
      { m with viol := m.viol ++ [s!"write through access {a} produced version {l.b}, {m.writes} modifications were made"] }
    else m
  | "readv" =>
    if l.b != (m.writes : Int) then
      { m with viol := m.viol ++ [s!"access {a} read version {l.b} but {m.writes} modifications were made by earlier accesses"] }
    else m
  | "vfree" =>
    let v := if m.heldList.isEmpty then [] else [s!"wrapped value destroyed while accesses {m.heldList} are held"]
    { m with vfreed := true, viol := m.viol ++ v }
  | "error" | "stopped" => { m with viol := m.viol ++ [s!"receiver of access {a} got {l.site}"] }
  | _ => m

def monitors (c : Case) (ls : List Line) : List String :=
  let m := ls.foldl monStep {}
  let endv :=
    if c.status == "ok" then []
    else if c.status == "deadlock" || c.status == "livelock" then
      -- the generated programs are deadlock-free under the specification (they are linearisations
      -- of a sequential history), so a run that cannot finish has a lost grant
      let waiting := (List.range m.nreq).filter (fun a => m.started a && !m.detached a && m.grants a == 0)
      [s!"stall: the run ended in '{c.status}'; started accesses never granted: {waiting}"]
    else [s!"run ended with status '{c.status}'"]
  m.viol ++ endv

def finalOk (s : St) : Bool :=
  (List.range s.na).all (fun a => s.acc a == .released) &&
  (List.range s.ng).all (fun g => match s.dn g with | .drain _ [] => true | _ => false)

def runCase (c : Case) : String :=
  let parsed := c.lines.map parseLine
  if parsed.any Option.isNone then s!"case {c.id} reject 0 malformed-line" else
  let ls := parsed.filterMap id
  let tb := mkTab ls
  let evs := toEvents tb ls (fun _ => 0) []
  let mon := monitors c ls
  let monS := if mon.isEmpty then "monitors ok" else "monitors FAIL: " ++ " | ".intercalate mon
  match accept Rw.init evs 0 with
  | .error (i, raw) => s!"case {c.id} reject {i} [{raw}] ; {monS}"
  | .ok s =>
    let fin :=
      if c.status == "ok" then
        if finalOk s then
          if !s.alive && c.getNat "void" == 0 && !s.vfreed then "final MISMATCH: mutex destroyed, all accesses released, value not destroyed"
          else s!"final ok groups={s.ng} accesses={s.na}"
        else "final MISMATCH: run ended but the model has unreleased accesses or pending done() frames"
      else s!"final status {c.status}"
    s!"case {c.id} accept {evs.length} ; {fin} ; {monS}"

end Driver.RwDrv
