import PikaVerif.Model.Life
import Driver.Util
/-! Driver for the runtime life-cycle model (C05): E2 logs of `harness/e2/life.cpp`. -/
namespace Driver.LifeDrv
open PikaVerif PikaVerif.Life Driver

deriving instance Inhabited for Driver.Line

inductive Parsed where
  | ev (e : Ev)
  | skip            -- harness note used by the monitors only
  | bad (why : String)

def toEv (l : Line) : Parsed :=
  let a := l.tid
  let o := l.obj
  let x := l.a.toNat
  let y := l.b.toNat
  match l.site with
  | "gac.inc" => .ev (.inc a x)
  | "gac.dec" => .ev (.dec a x)
  | "gac.sample" =>
    -- payload: ((count << 1) | self) read before and after the predicate's own load
    if x == y then .ev (.sample a (x / 2) (x % 2)) else .bad "counter changed inside the sampled section"
  | "newq.push" => .ev (.stage a)
  | "newq.pop" => .ev (.unstage a)
  | "task.new" => .ev (.new a o)
  | "task.rebind" => .ev (.new a o)
  | "task.destroy" => .ev (.destroy a o)
  | "phase.begin" => .ev (.phaseBegin a o)
  | "phase.end" => .ev (.phaseEnd a o)
  | "body.enter" => .ev (.body a o)
  | "body.exit" => .ev (.body a o)
  | "rt.state" => .ev (.rtState a x)
  | "rt.result" => .ev (.result a x)
  | "rt.fin" => .ev (.fin a)
  | "life.stop.enter" => .ev (.stopEnter a)
  | "rt.waitfin" => if x == 1 then .ev (.waitFin a) else .bad "wait_finalize returned without stop_done_"
  | "rt.waited" => .ev (.waited a x)
  | "life.stop.exit" => .ev (.stopExit a x)
  | "rt.suspend" => .ev (.suspendEnter a)
  | "rt.resume" => .ev (.resumeEnter a)
  | "pool.worker" => .ev (.worker a)
  | "pu.sleep" => .ev (.sleep a)
  | "pu.wake" => .ev (.wake a)
  | "x.wait.enter" => .ev (.waitEnter a)
  | "x.wait.exit" => .ev (.waitExit a)
  | "x.start" => .ev (.reqCfg a x y)
  | "x.cfg" => .ev (.seenCfg a x y)
  | s => if s.startsWith "x." then .skip else .bad "unknown site"

def accept (s : St) : List Line → Nat → Nat → Except (Nat × String) (St × Nat)
  | [], _, n => .ok (s, n)
  | l :: rest, i, n =>
    match toEv l with
    | .bad why => .error (i, why ++ ": " ++ l.raw)
    | .skip => accept s rest (i + 1) n
    | .ev e =>
      match step s e with
      | some s' => accept s' rest (i + 1) (n + 1)
      | none => .error (i, l.raw)

/-! ## Independent monitors (observables only: harness notes and body brackets) -/

structure Wait where
  id : Nat
  self : Nat            -- task id + 1 of the caller, 0 = not a task
  snap : Array Bool     -- tasks whose submission had returned when wait() was called

structure Mon where
  parent : Array Nat := #[]      -- task k ↦ parent + 1 (0 = submitted from outside)
  known : Array Bool := #[]      -- x.sub seen
  subdone : Array Bool := #[]
  exited : Array Bool := #[]
  entered : Array Nat := #[]
  waits : List Wait := []
  suspended : Bool := false
  stopSusp : Bool := false       -- the harness entered stop() on a suspended runtime (x.stop.enter 1)
  parked : List Nat := []        -- OS threads that logged pu.sleep and no pu.wake since
  incStart : Nat := 0            -- first task id of the current incarnation
  entry : Option Nat := none     -- value returned by the entry function in this incarnation
  viol : List String := []

def setAt {α : Type} (arr : Array α) (i : Nat) (v d : α) : Array α :=
  let arr := if arr.size ≤ i then arr ++ Array.replicate (i + 1 - arr.size) d else arr
  arr.set! i v

def getB (arr : Array Bool) (i : Nat) : Bool := arr.getD i false

/-- is task `k` in the closure (snapshot ∪ descendants of the snapshot)? walk up the parents -/
def inClosure (m : Mon) (snap : Array Bool) : Nat → Nat → Bool
  | 0, _ => false
  | fuel + 1, k =>
    if getB snap k then true
    else
      let p := m.parent.getD k 0
      if p == 0 then false else inClosure m snap fuel (p - 1)

def addViol (m : Mon) (v : String) : Mon :=
  if m.viol.length < 8 then { m with viol := v :: m.viol } else m

def monStep (m : Mon) (l : Line) : Mon :=
  let x := l.a.toNat
  let y := l.b.toNat
  match l.site with
  | "x.sub" => { m with parent := setAt m.parent x y 0, known := setAt m.known x true false }
  | "x.subdone" => { m with subdone := setAt m.subdone x true false }
  | "body.enter" =>
    let m := { m with entered := setAt m.entered x (m.entered.getD x 0 + 1) 0 }
    let m := if m.entered.getD x 0 > 1 then addViol m s!"task {x} entered twice" else m
    if m.suspended then addViol m s!"task {x}: body entered while the runtime is suspended" else m
  | "body.exit" =>
    let m := { m with exited := setAt m.exited x true false }
    if m.suspended then addViol m s!"task {x}: body still executing while the runtime is suspended" else m
  | "x.tick" =>
    if m.suspended then addViol m s!"task {x}: body executing while the runtime is suspended" else m
  | "x.wait.enter" => { m with waits := { id := x, self := y, snap := m.subdone } :: m.waits }
  | "x.wait.exit" =>
    match m.waits.find? (fun w => w.id == x) with
    | none => addViol m s!"wait {x} exit without enter"
    | some w =>
      let n := m.known.size
      let missing := (List.range n).filter (fun k =>
        k + 1 != w.self && getB m.known k && inClosure m w.snap (n + 1) k && !getB m.exited k)
      let m := { m with waits := m.waits.filter (fun w => w.id != x) }
      if missing.isEmpty then m
      else addViol m s!"wait() returned while tasks submitted before the call (or their descendants) had not finished: {missing.take 6}"
  | "x.susp.exit" => { m with suspended := true }
  | "x.res.enter" => { m with suspended := false }
  | "x.entry" => { m with entry := some x }
  | "x.start" => { m with incStart := m.known.size, entry := none }
  | "x.stop.enter" => { m with stopSusp := x == 1 }
  | "pu.sleep" => { m with parked := l.tid :: m.parked }
  | "pu.wake" => { m with parked := m.parked.filter (· != l.tid) }
  | "life.stop.exit" =>
    -- stop() joins every worker: none of them can still be parked in scheduler_base::suspend
    if m.parked.isEmpty then m
    else addViol { m with parked := [] } s!"stop() returned while workers {m.parked.take 6} were still parked (no pu.wake since their pu.sleep)"
  | "x.stop.exit" =>
    let n := m.known.size
    let missing := (List.range n).filter (fun k => getB m.known k && !getB m.exited k)
    let m := if missing.isEmpty then m
      else addViol m s!"stop() returned while submitted tasks had not finished: {missing.take 6}"
    let want := m.entry.getD 0
    let m := if x == want then m else addViol m s!"stop() returned {x}, the entry function returned {want}"
    let m := if m.suspended && !m.stopSusp then addViol m "stop() returned while suspended flag set" else m
    { m with suspended := false, stopSusp := false }
  | _ => m

def monitors (ls : List Line) : List String :=
  (ls.foldl monStep {}).viol.reverse

/-- Thread objects pre-allocated for the recycling heap (`thread_queue::on_start_thread`) are
    constructed without a task: the `task.new` of the constructor is immediately followed, on the
    same OS thread, by `heap.pool` for the same object.  Both lines are dropped (a pooled object is
    not a unit of activity); an unmatched `heap.pool` stays and is rejected as an unknown site. -/
def dropPooled (ls : Array Line) : List Line :=
  let n := ls.size
  let init : Array Bool × Array (Option (Nat × Nat)) := (Array.replicate n true, #[])
  let (keep, _) := (List.range n).foldl (fun acc i =>
    let l := ls[i]!
    let (keep, last) := acc
    if l.site == "task.new" then (keep, setAt last l.tid (some (i, l.obj)) none)
    else if l.site == "heap.pool" then
      match last.getD l.tid none with
      | some (j, o) =>
        if o == l.obj then ((keep.set! i false).set! j false, setAt last l.tid none none) else (keep, last)
      | none => (keep, last)
    else (keep, last)) init
  (List.range n).filterMap (fun i => if keep.getD i true then some ls[i]! else none)

def runCase (c : Case) : String :=
  -- the log buffer filled up while some thread was still polling: no verdict for this run
  if c.status == "overflow" then s!"case {c.id} inconclusive log-buffer-full" else
  let mons := c.lines.filter (·.startsWith "monitor ")
  let evl := c.lines.filter (fun l => !(l.startsWith "monitor "))
  let parsed := evl.map parseLine
  if parsed.any Option.isNone then s!"case {c.id} reject 0 malformed-line" else
  let ls := dropPooled (parsed.filterMap id).toArray
  let na := ls.foldl (fun m l => max m (l.tid + 1)) 1
  let no := ls.foldl (fun m l => max m (l.obj + 1)) 1
  -- `pending-stop`: directed probe (smode 4) whose expected outcome is that stop() does not return
  let pending := c.status == "pending-stop"
  let mon := mons ++ monitors ls ++ (if c.status == "ok" || pending then [] else [s!"run ended with status '{c.status}'"])
  let monS := if mon.isEmpty then "monitors ok" else "monitors FAIL: " ++ " | ".intercalate mon
  match accept (Life.init na no) ls 0 0 with
  | .error (i, raw) => s!"case {c.id} reject {i} [{raw}] ; {monS}"
  | .ok (s, n) =>
    let fin := if pending then
        (if s.ph == .suspended && s.cnt > 0 && s.spc == .waitedFin && s.stopper.isSome then
          "final ok-pending (stop() on a suspended runtime with queued work keeps polling)"
        else s!"final MISMATCH: run ended 'pending-stop' but model phase {repr s.ph} count {s.cnt} stop pc {repr s.spc}")
      else if s.ph == .none && s.cnt == 0 then "final ok"
      else s!"final MISMATCH: run ended but model phase {repr s.ph} count {s.cnt}"
    s!"case {c.id} accept {n} ; {fin} ; incarnations {s.incarnation} ; {monS}"

end Driver.LifeDrv
