import PikaVerif.Gen.SwapAsm
import Driver.Util
/-! Driver for C12 (harness/e2/ctx.cpp).

* `swap …` records: the real `swapcontext_stack` was called with the recorded registers / target frame;
  the compiled Lean machine (`X86.run Gen.SwapAsm.prog`) is run from the same state and every register
  and memory word the real routine produced is compared (two switches per record: away and back).
* `stack …` records: independent monitors — stack size = configured size of the class, address range
  of that size, and pairwise disjointness of the ranges of tasks whose lifetimes overlap.
* `monitor …` lines from the harness are failures; `finding …` lines are passed through. -/
namespace Driver.CtxDrv
open PikaVerif PikaVerif.X86 Driver

def nats (ws : List String) : Option (List Nat) := ws.mapM (·.toNat?)

/-- split `k1 v… k2 v…` into fields by keyword -/
def fields (ws : List String) (keys : List String) : List (String × List String) :=
  let rec go (ws : List String) (cur : Option (String × List String)) (acc : List (String × List String)) :
      List (String × List String) :=
    match ws with
    | [] => (match cur with | some (k, v) => (k, v.reverse) :: acc | none => acc).reverse
    | w :: rest =>
      if keys.contains w then
        go rest (some (w, [])) (match cur with | some (k, v) => (k, v.reverse) :: acc | none => acc)
      else match cur with
        | some (k, v) => go rest (some (k, w :: v)) acc
        | none => go rest none acc
  go ws none []

def memOf (l : List (Nat × Nat)) : Nat → Nat := fun a =>
  match l.find? (fun p => p.1 == a) with
  | some p => p.2
  | none => 0

def regsOf (l : List (Reg × Nat)) : Reg → Nat := fun r =>
  match l.find? (fun p => p.1 == r) with
  | some p => p.2
  | none => 0

def cmp (what : String) (model impl : Nat) : List String :=
  if model == impl then [] else [s!"{what}: model {model} impl {impl}"]

/-- check one `swap` record; returns the list of disagreements -/
def checkSwap (ws : List String) : List String :=
  let f := fields ws ["in", "T", "sp", "from", "saved", "from2", "frame", "land", "back", "carry", "saved2"]
  let get (k : String) : List Nat := match f.find? (·.1 == k) with
    | some (_, v) => (nats v).getD []
    | none => []
  let inp := get "in"; let t := get "T"; let sp := (get "sp").headD 0; let from1 := (get "from").headD 0
  let saved := (get "saved").headD 0; let from2 := (get "from2").headD 0; let frame := get "frame"
  let land := get "land"; let back := get "back"; let carry := get "carry"; let saved2 := (get "saved2").headD 0
  if inp.length != 8 || t.length != 13 || frame.length != 11 || land.length != 12 || back.length != 12 ||
      carry.length != 2 then ["malformed swap record"] else
  let T := t.headD 0
  let tw := t.drop 1
  let g (l : List Nat) (i : Nat) : Nat := l.getD i 0
  let mem0 := memOf ((List.range 12).map (fun i => (T + 8 * i, g tw i)) ++
    [(sp - 8, g frame 8), (sp, g frame 9), (sp + 8, g frame 10)])
  let s0 : St := ⟨regsOf [(.rbx, g inp 0), (.rbp, g inp 1), (.r12, g inp 2), (.r13, g inp 3), (.r14, g inp 4),
    (.r15, g inp 5), (.rax, g inp 6), (.rdx, g inp 7), (.rsp, sp - 8), (.rdi, from1), (.rsi, T)], mem0, 0, 0⟩
  match run Gen.SwapAsm.prog s0 with
  | none => ["model: first switch faults"]
  | some (s1, t1) =>
    let regNames : List (String × Reg) := [("rbx", .rbx), ("rbp", .rbp), ("r12", .r12), ("r13", .r13), ("r14", .r14),
      ("r15", .r15), ("rax", .rax), ("rdx", .rdx), ("rcx", .rcx), ("rsi", .rsi), ("rsp", .rsp), ("rdi", .rdi)]
    let e1 := cmp "switch 1 target" t1 (g tw 8) ++
      (regNames.zipIdx.flatMap (fun (p, i) => cmp s!"switch 1 {p.1}" (s1.reg p.2) (g land i))) ++
      cmp "switch 1 *from" (s1.mem from1) saved ++
      ((List.range 9).flatMap (fun i => cmp s!"switch 1 saved frame word {i}" (s1.mem (saved + 8 * i)) (g frame i)))
    -- the landing code: rbx/rbp replaced, `subq $8,%rsp`, `call` (pushes a return address)
    let s2 : St := ⟨setReg (setReg (setReg (setReg (setReg s1.reg .rbx (g carry 0)) .rbp (g carry 1)) .rsp
      (s1.reg .rsp - 16)) .rdi from2) .rsi saved, s1.mem, 0, 0⟩
    match run Gen.SwapAsm.prog s2 with
    | none => e1 ++ ["model: second switch faults"]
    | some (s3, t3) =>
      e1 ++ cmp "switch 2 target" t3 (g frame 8) ++
        (regNames.zipIdx.flatMap (fun (p, i) => cmp s!"switch 2 {p.1}" (s3.reg p.2) (g back i))) ++
        cmp "switch 2 *from" (s3.mem from2) saved2

structure StackRec where
  lid : Nat
  cls : Nat
  lo : Nat
  hi : Nat
  ts : Nat
  te : Nat
  size : Nat
  conf : Nat
  deriving Inhabited

def parseStack (ws : List String) : Option StackRec :=
  match nats ws with
  | some [lid, cls, lo, hi, ts, te, size, conf] => some ⟨lid, cls, lo, hi, ts, te, size, conf⟩
  | _ => none

def stackMonitors (rs : Array StackRec) : List String := Id.run do
  let mut out : List String := []
  for r in rs do
    if r.size != r.conf then out := s!"task {r.lid}: stack size {r.size} != configured {r.conf}" :: out
    if r.hi - r.lo != r.size || r.lo % 4096 != 0 then out := s!"task {r.lid}: malformed stack range" :: out
  let sorted := rs.qsort (fun a b => a.lo < b.lo)
  for i in [0:sorted.size] do
    let a := sorted[i]!
    let mut j := i + 1
    while j < sorted.size && sorted[j]!.lo < a.hi do
      let b := sorted[j]!
      if a.ts < b.te && b.ts < a.te && out.length < 10 then
        out := s!"tasks {a.lid} and {b.lid} live at the same time on overlapping stacks" :: out
      j := j + 1
  return out.reverse

def runCase (c : Case) : String :=
  let mons := c.lines.filter (·.startsWith "monitor ")
  let finds := c.lines.filter (·.startsWith "finding ")
  let swaps := c.lines.filter (·.startsWith "swap ")
  let stacks := c.lines.filter (·.startsWith "stack ")
  let other := c.lines.filter (fun l => !(l.startsWith "monitor " || l.startsWith "finding " || l.startsWith "swap " ||
    l.startsWith "stack " || l.startsWith "stat "))
  if !other.isEmpty then s!"case {c.id} reject 0 [unparsed: {other.headD ""}]" else
  let srecs := stacks.map (fun l => parseStack ((l.splitOn " ").drop 1))
  if srecs.any Option.isNone then s!"case {c.id} reject 0 [malformed stack record]" else
  let sm := stackMonitors (srecs.filterMap id).toArray
  let allMon := mons ++ sm.map ("monitor (driver) " ++ ·) ++
    (if c.status == "ok" then [] else [s!"run ended with status '{c.status}'"])
  let monS := if allMon.isEmpty then "monitors ok" else "monitors FAIL: " ++ " | ".intercalate (allMon.take 6)
  let findS := if finds.isEmpty then "" else " ; " ++ " | ".intercalate finds
  -- differential records
  let bad := swaps.zipIdx.filterMap (fun (l, i) =>
    match checkSwap ((l.splitOn " ").drop 2) with
    | [] => none
    | e => some (i, e))
  match bad with
  | (i, e) :: _ => s!"case {c.id} reject {i} [swap record {i}: {"; ".intercalate (e.take 4)}] ; {monS}{findS}"
  | [] => s!"case {c.id} accept {swaps.length + stacks.length} ; swaps {swaps.length} stacks {stacks.length} ; {monS}{findS}"

end Driver.CtxDrv
