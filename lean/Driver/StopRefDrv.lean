import PikaVerif.Model.StopRef
import Driver.Util
/-! Driver for the reference-count model (C14, sequential half): the operation list of the case
    is run through the Lean model and the model's observation line is compared with the line the
    real classes produced; an independent monitor recomputes `stop_possible` from a counter-free
    specification (handles own states; live sources are counted from the handles). -/
namespace Driver.StopRefDrv
open PikaVerif PikaVerif.StopRef Driver

def parseOp (w : List String) : Option Op :=
  match w with
  | [n, a] =>
    match a.toNat? with
    | some a =>
      match n with
      | "snew" => some (.snew a) | "snone" => some (.snone a) | "sdel" => some (.sdel a)
      | "tnew" => some (.tnew a) | "tdel" => some (.tdel a) | "rs" => some (.rs a)
      | _ => none
    | none => none
  | [n, a, b] =>
    match a.toNat?, b.toNat? with
    | some a, some b =>
      match n with
      | "scopy" => some (.scopy a b) | "smove" => some (.smove a b) | "sassign" => some (.sassign a b)
      | "smassign" => some (.smassign a b) | "sswap" => some (.sswap a b) | "tget" => some (.tget a b)
      | "tcopy" => some (.tcopy a b) | "tmove" => some (.tmove a b) | "tassign" => some (.tassign a b)
      | "tmassign" => some (.tmassign a b) | "tswap" => some (.tswap a b)
      | _ => none
    | _, _ => none
  | _ => none

def parseOps (threadLine : String) : List (Option Op) :=
  match threadLine.splitOn ":" with
  | _ :: rest =>
    ((":".intercalate rest).splitOn ";").filterMap (fun seg =>
      let w := (seg.trimAscii.toString.splitOn " ").filter (· ≠ "")
      if w.isEmpty then none else some (parseOp w))
  | _ => []

def digit (n : Nat) : Char := Char.ofNat (48 + n)

def obsLine (H : Nat) (src tok : Nat → Handle) (poss reqd : Handle → Bool) (ret : String) : String :=
  let cell (h : Handle) : Char :=
    match h with
    | none => '-'
    | some none => '0'
    | some (some _) => digit ((if poss h then 1 else 0) + (if reqd h then 2 else 0))
  let rep (f : Nat → Handle) (i : Nat) : Char :=
    match f i with
    | none => '-'
    | some h =>
      match (List.range i).find? (fun j => f j == some h) with
      | some j => digit j
      | none => digit i
  let r := List.range H
  -- a stop_source answers stop_possible() with "owns a state"
  let scell (h : Handle) : Char :=
    match h with
    | none => '-'
    | some none => '0'
    | some (some _) => digit (1 + (if reqd h then 2 else 0))
  "S:" ++ String.ofList (r.map (fun i => scell (src i))) ++ " T:" ++ String.ofList (r.map (fun i => cell (tok i))) ++
    " ES:" ++ String.ofList (r.map (rep src)) ++ " ET:" ++ String.ofList (r.map (rep tok)) ++ " R:" ++ ret

/-- counter-free specification used by the monitor: `stop_possible` of a token is
    "requested or some live source owns the same state" -/
def specPossible (s : St) (h : Handle) : Bool :=
  match h with
  | some (some st) => s.req st || (List.range s.H).any (fun i => s.src i == some (some st))
  | _ => false

def runCase (c : Case) : String :=
  let H := c.getNat "H" 6
  let ops := match c.threads with
    | t :: _ => parseOps t
    | [] => []
  let obs := c.lines.filter (fun l => l.startsWith "o ")
  if ops.length != obs.length then s!"case {c.id} reject 0 [operation/observation count {ops.length}/{obs.length}] ; monitors ok" else
  let fix := c.getNat "fix" 1 != 0
  let rec go (s : St) (l : List (Option Op × String)) (i : Nat) (mon : List String) : String × List String :=
    match l with
    | [] => (s!"accept {i} ; final ok", mon)
    | (none, o) :: _ => (s!"reject {i} [unparsed operation before: {o}]", mon)
    | (some op, o) :: rest =>
      let want (s' : St) (ret : String) := s!"o {i} " ++ obsLine H s'.src s'.tok (possible s') (requested s') ret
      let spec (s' : St) (ret : String) := s!"o {i} " ++ obsLine H s'.src s'.tok (specPossible s') (requested s') ret
      match step s op with
      | none => if o == s!"o {i} illegal" then go s rest (i + 1) mon else (s!"reject {i} [model: illegal, impl: {o}]", mon)
      | some s' =>
        let ret := match op with
          | .rs a => (match s.src a with
                      | some (some st) => if s.req st then "0" else "1"
                      | _ => "0")
          | _ => "-"
        let mon := if o != spec s' ret then
            s!"after operation {i} the objects report [{o}] but owners/requests imply [{spec s' ret}] (S/T digits: stop_possible + 2*stop_requested)" :: mon
          else mon
        if o == want s' ret then go s' rest (i + 1) mon
        else (s!"reject {i} [impl: {o} ; model: {want s' ret}]", mon)
  let (v, mon) := go (StopRef.init fix H) (ops.zip obs) 0 []
  let monS := if mon.isEmpty then "monitors ok" else "monitors FAIL: " ++ " | ".intercalate (mon.reverse.take 2)
  s!"case {c.id} {v} ; {monS}"

end Driver.StopRefDrv
