import PikaVerif.Model.Fifo
import Driver.Util
import Std.Data.HashMap
/-! Driver for the FIFO back-end model (C17, `harness/e0/fifo.cpp`, model name `fifo`).

The harness runs REAL threads on the real `lockfree_fifo_backend` (moodycamel queue, no hook
points), so the real interleaving is not observable.  Every inner-queue operation carries a stamp
drawn from one global counter *before* it begins and one drawn *after* it ended; the lines arrive
merged in stamp order.  The real interval of an operation lies inside its stamped interval, hence:
a value a dequeue really returned was really stored ⇒ its enqueue's begin stamp precedes the
dequeue's end stamp; two operations that really overlap also overlap by their stamps; if nothing
overlaps a dequeue by stamps, every other operation really completed before it or began after it.
Therefore every run of a queue that satisfies `QSpec` yields a stamp-ordered log that the Lean
acceptor (`Backend.step` = `qstep` in mode 0, `Fifo.step` in mode 1) accepts (the single-threaded
prefill and drain phases are exact linearisations); the counter operations of mode 1 are stamped
under a lock together with the operation, so their order is exact.

Independent monitors recompute the interval-order consequences from the raw lines (no model state):
never-pushed / not-yet-begun value popped, value popped twice, per (producer, consumer) order,
`false` from a pop that no other operation overlaps while completed pushes outnumber successful pops,
`empty()` wrong on a quiescent queue, everything pushed is popped after the final drain, the
counter value loaded = increments − decrements ≥ 0. -/
namespace Driver.FifoDrv
open PikaVerif PikaVerif.Fifo Driver

def two32 : Nat := 4294967296

def decode (a : Int) : Option (Nat × Nat) :=
  if a < 0 then none else some (a.toNat / two32, a.toNat)

/-- Re-tabulate the per-thread maps (extensionally the identity for thread ids `< n`, all others are
    idle in every reachable state): keeps the closure chains built by `upd` short on long logs. -/
def compactQ (n : Nat) (q : QSt) : QSt :=
  let arr := (Array.range n).map q.pend
  { q with pend := fun u => arr.getD u .idle }

def compactS (s : St) : St :=
  let arr := (Array.range s.n).map s.pc
  { s with q := compactQ s.n s.q, pc := fun u => arr.getD u .idle }

/-- mode 0: back-end events -/
def toBackend (oe : Bool) (l : Line) : Option (Option Backend.Ev) :=
  match l.site with
  | "enqB" => if l.a < 0 then none else some (some (.pushBegin l.tid l.a.toNat oe))
  | "enqE" => if l.a == 1 then some (some (.pushEnd l.tid)) else none
  | "deqB" => some (some (.popBegin l.tid oe))
  | "deqE" => some (some (.popEnd l.tid (decode l.a)))
  | "empty" => some (some (.empty l.tid (l.a != 0)))
  | "phase" => some none
  | _ => none

def acceptB (n : Nat) : QSt → List Line → Bool → Nat → Except (Nat × String) QSt
  | q, [], _, _ => .ok q
  | q, l :: rest, oe, i =>
    match toBackend oe l with
    | none => .error (i, "unparsed: " ++ l.raw)
    | some none => acceptB n q rest oe (i + 1)
    | some (some e) =>
      match Backend.step q e with
      | some q' => acceptB n (if i % 64 == 63 then compactQ n q' else q') rest oe (i + 1)
      | none => .error (i, l.raw)

/-- mode 1: one wrapper event per line; `empty` observations go to the inner spec directly -/
def stepLine (s : St) (l : Line) : Option (Option St) :=
  let t := l.tid
  match l.site with
  | "inc" => if l.a < 0 then none else some (step s (.inc t l.a.toNat))
  | "enqB" =>
    -- the value pushed must be the value handed to schedule_thread
    match s.pc t with
    | .incd v => if (v : Int) == l.a then some (step s (.pushB t)) else some none
    | _ => some none
  | "enqE" => if l.a == 1 then some (step s (.pushE t)) else none
  | "load" => some (step s (.load t l.a (l.obj : Int)))
  | "retF" => some (step s (.retF t))
  | "deqB" => some (step s (.popB t))
  | "deqE" => some (step s (.popE t (decode l.a)))
  | "dec" => some (step s (.dec t))
  | "empty" => some ((qstep s.q (.sizeZero t (l.a != 0))).map fun _ => s)
  | "phase" => some (some s)
  | _ => none

def acceptW : St → List Line → Nat → Except (Nat × String) St
  | s, [], _ => .ok s
  | s, l :: rest, i =>
    match stepLine s l with
    | none => .error (i, "unparsed: " ++ l.raw)
    | some none => .error (i, l.raw)
    | some (some s') => acceptW (if i % 64 == 63 then compactS s' else s') rest (i + 1)

/-! ## Independent monitors (raw lines only) -/

structure Mon where
  enqB : Std.HashMap Nat Nat := {}          -- value ↦ begin stamp of its push
  popped : Std.HashMap Nat Nat := {}        -- value ↦ thread that popped it
  lastFrom : Std.HashMap (Nat × Nat) Nat := {}   -- (producer, consumer) ↦ last value received
  pendDeq : Std.HashMap Nat (Bool × Nat) := {}   -- thread ↦ (alone so far, completed pushes − successful pops at begin)
  inFlight : Nat := 0
  ended : Nat := 0
  taken : Nat := 0
  incs : Nat := 0
  decs : Nat := 0
  phase : Nat := 0
  drained : Nat := 0
  failedPops : Nat := 0
  overlapped : Nat := 0                    -- operations that began while another one was in flight
  viol : List String := []

def Mon.bad (m : Mon) (s : String) : Mon := if m.viol.length < 6 then { m with viol := s :: m.viol } else m

def Mon.begin (m : Mon) : Mon :=
  { m with pendDeq := m.pendDeq.map (fun _ p => (false, p.2)),
           overlapped := if m.inFlight > 0 then m.overlapped + 1 else m.overlapped,
           inFlight := m.inFlight + 1 }

def monStep (m : Mon) (l : Line) : Mon :=
  let t := l.tid
  let stamp := l.b.toNat
  match l.site with
  | "enqB" =>
    let v := l.a.toNat
    let m := if m.enqB.contains v then m.bad s!"harness: value {v} pushed twice" else m
    let m := m.begin
    { m with enqB := m.enqB.insert v stamp }
  | "enqE" =>
    let m := if l.a != 1 then m.bad s!"push returned false (thread {t})" else m
    { m with inFlight := m.inFlight - 1, ended := m.ended + 1 }
  | "deqB" =>
    let alone := m.inFlight == 0
    let avail := m.ended - m.taken
    let m := m.begin
    { m with pendDeq := m.pendDeq.insert t (alone, avail) }
  | "deqE" =>
    let m := { m with inFlight := m.inFlight - 1 }
    match decode l.a with
    | none =>
      let m := { m with failedPops := m.failedPops + 1 }
      match m.pendDeq.get? t with
      | some (true, avail) =>
        if avail > 0 then
          m.bad s!"pop returned false on a quiescent queue holding {avail} element(s) (thread {t}, stamp {stamp}; no other operation overlaps it)"
        else m
      | _ => m
    | some (p, v) =>
      let m := { m with taken := m.taken + 1, drained := if m.phase == 2 then m.drained + 1 else m.drained }
      let m := match m.enqB.get? v with
        | none => m.bad s!"value {v} popped by thread {t} but never pushed (invented)"
        | some sb => if sb < stamp then m else m.bad s!"value {v} popped (pop ended at stamp {stamp}) before its push began (stamp {sb})"
      let m := match m.popped.get? v with
        | some u => m.bad s!"value {v} popped twice (threads {u} and {t}) (duplicate)"
        | none => m
      let m := match m.lastFrom.get? (p, t) with
        | some w => if w < v then m else m.bad s!"thread {t} received {v} after {w} from the same producer {p} (per-producer FIFO order broken)"
        | none => m
      { m with popped := m.popped.insert v t, lastFrom := m.lastFrom.insert (p, t) v }
  | "empty" =>
    if m.inFlight == 0 then
      let avail := m.ended - m.taken
      if (l.a != 0) != (avail == 0) then
        m.bad s!"empty() = {l.a} on a quiescent queue holding {avail} element(s)"
      else m
    else m
  | "phase" => { m with phase := l.a.toNat }
  | "inc" => { m with incs := m.incs + 1 }
  | "dec" =>
    let m := { m with decs := m.decs + 1 }
    if m.decs > m.incs then m.bad s!"work_items_count_ decremented below zero" else m
  | "load" =>
    let m := if l.a < 0 then m.bad s!"work_items_count_ loaded {l.a} (negative)" else m
    if l.a != (m.incs : Int) - (m.decs : Int) then
      m.bad s!"work_items_count_ loaded {l.a} but increments - decrements = {(m.incs : Int) - (m.decs : Int)}"
    else m
  | _ => m

def monFinish (m : Mon) : Mon :=
  let lost := m.enqB.fold (fun acc v _ => if m.popped.contains v then acc else v :: acc) []
  let m := if lost.isEmpty then m else
    m.bad s!"after the final drain {lost.length} pushed value(s) were never popped: lost {lost.take 5}"
  if m.inFlight != 0 then m.bad s!"harness: {m.inFlight} operation(s) without an end line" else m

def runCase (c : Case) : String :=
  let lines := c.lines.filterMap parseLine
  if lines.length != c.lines.length then s!"case {c.id} reject 0 [unparsed line] ; monitors ok" else
  if c.status != "ok" then s!"case {c.id} reject 0 [end {c.status}] ; monitors ok" else
  let n := c.threads.length + 1
  let mode := c.getNat "mode" 0
  let oe := c.getNat "oe" 0 != 0
  let m := monFinish (lines.foldl monStep {})
  let monS := if m.viol.isEmpty then "monitors ok" else "monitors FAIL: " ++ " | ".intercalate (m.viol.reverse.take 3)
  let stats := s!"stats ops={m.enqB.size + m.taken + m.failedPops} pushed={m.enqB.size} failedpops={m.failedPops} overlapped={m.overlapped} drained={m.drained}"
  let v :=
    if mode == 0 then
      match acceptB n qinit lines oe 0 with
      | .error (i, raw) => s!"reject {i} [{raw}]"
      | .ok q =>
        if q.stored.isEmpty && q.active == 0 then s!"accept {lines.length} ; final ok"
        else s!"accept {lines.length} ; final MISMATCH model still stores {q.stored.length} value(s), {q.active} operation(s) in flight"
    else
      match acceptW (Fifo.init n) lines 0 with
      | .error (i, raw) => s!"reject {i} [{raw}]"
      | .ok s =>
        let idle := (List.range n).all (fun t => s.pc t == .idle)
        if idle && s.q.stored.isEmpty && s.count == 0 && s.handed.length == s.returned.length then
          s!"accept {lines.length} ; final ok"
        else s!"accept {lines.length} ; final MISMATCH count={s.count} stored={s.q.stored.length} handed={s.handed.length} returned={s.returned.length} idle={idle}"
  s!"case {c.id} {v} ; {stats} ; {monS}"

end Driver.FifoDrv
