import PikaVerif
def main : IO Unit := IO.println "driver"
