import Driver.Util
import Driver.SemDrv
import Driver.StopDrv
import Driver.StopRefDrv
/-! `driver <model>`: reads harness output (cases) on stdin, prints one verdict line per case. -/
open Driver

def dispatch (model : String) (c : Case) : String :=
  match model with
  | "sem" => SemDrv.runCase c
  | "stop" => StopDrv.runCase c
  | "stopref" => StopRefDrv.runCase c
  | _ => s!"case {c.id} reject 0 unknown-model-{model}"

def main (args : List String) : IO UInt32 := do
  let model := args.headD ""
  let stdin ← IO.getStdin
  let cases ← readCases stdin #[] none
  for c in cases do
    IO.println (dispatch model c)
  return 0
