import Driver.Util
import Driver.SemDrv
import Driver.SSemDrv
import Driver.SchedDrv
import Driver.SchedCoDrv
import Driver.RwDrv
import Driver.SndDrv
import Driver.SharedDrv
import Driver.AffDrv
import Driver.CVDrv
import Driver.CVAbortDrv
import Driver.DequeDrv
import Driver.BarrierDrv
import Driver.BarrierTDrv
import Driver.LatchDrv
import Driver.OnceDrv
import Driver.EraseDrv
import Driver.MtxDrv
import Driver.CfgDrv
import Driver.MpiDrv
import Driver.ElasticDrv
import Driver.CtxDrv
import Driver.JoinDrv
import Driver.PlaceDrv
import Driver.LifeDrv
import Driver.IqDrv
import Driver.BulkDrv
import Driver.StopDrv
import Driver.StopRefDrv
import Driver.FifoDrv
import Driver.AgentDrv
/-! `driver <model>`: reads harness output (cases) on stdin, prints one verdict line per case. -/
open Driver

def dispatch (model : String) (c : Case) : String :=
  match model with
  | "sem" => SemDrv.runCase c
  | "ssem" => SSemDrv.runCase c
  | "sched" => SchedDrv.runCase c
  | "schedco" => SchedCoDrv.runCase c
  | "rw" => RwDrv.runCase c
  | "snd" => SndDrv.runCase c
  | "shared" => SharedDrv.runCase c
  | "aff" => AffDrv.runCase c
  | "cv" => CVDrv.runCase c
  | "cvabort" => CVAbortDrv.runCase c
  | "deque" => DequeDrv.runCase c
  | "barrier" => BarrierDrv.runCase c
  | "barriert" => BarrierTDrv.runCase c
  | "latch" => LatchDrv.runCase c
  | "once" => OnceDrv.runCase c
  | "c09l" => if c.get "kind" == "latch" then LatchDrv.runCase c else OnceDrv.runCase c
  | "erase" => EraseDrv.runCase c
  | "mtx" => MtxDrv.runCase c
  | "cfg" => CfgDrv.runCase c
  | "mpi" => MpiDrv.runCase c
  | "elastic" => ElasticDrv.runCase c
  | "ctx" => CtxDrv.runCase c
  | "join" => JoinDrv.runCase c
  | "place" => PlaceDrv.runCase c
  | "life" => LifeDrv.runCase c
  | "iq" => IqDrv.runCase c
  | "bulk" => BulkDrv.runCase c
  | "stop" => StopDrv.runCase c
  | "stopref" => StopRefDrv.runCase c
  | "fifo" => FifoDrv.runCase c
  | "agent" => AgentDrv.runCase c
  | _ => s!"case {c.id} reject 0 unknown-model-{model}"

def main (args : List String) : IO UInt32 := do
  let model := args.headD ""
  if model == "cfg-keys" then IO.println CfgDrv.cfgKeys; return 0
  let stdin ← IO.getStdin
  let cases ← readCases stdin #[] none
  for c in cases do
    IO.println (dispatch model c)
  return 0
