import PikaVerif.Model.Shared
import PikaVerif.Model.SharedLife
import PikaVerif.Model.WhenAll
import PikaVerif.Model.WhenAllLife
import PikaVerif.Model.SchedFromLife
import PikaVerif.Model.LetLife
import Driver.Util
/-!
Driver for the shared-state model (C03, engine E1): hook-event logs of `harness/e1/split.cpp`
are replayed through the Lean acceptors `Shared.step` / `WhenAll.step`; independent monitors
recompute "every started consumer receives exactly the stored completion, once" from the
harness notes alone.
-/
namespace Driver.SharedDrv
open PikaVerif Driver

def chOfSite (site : String) : Option Nat :=
  if site.endsWith ".value" then some 0
  else if site.endsWith ".stopped" then some 1
  else if site.endsWith ".error" then some 2
  else none

/-- channel of the `complete_<ch>` op in thread `t`'s program -/
def chOfThread (c : Case) (t : Nat) : Nat :=
  match c.threads[t]? with
  | some l => if (l.splitOn "complete_value").length > 1 then 0
              else if (l.splitOn "complete_stopped").length > 1 then 1 else 2
  | none => 0

/-- when_all kinds: channel of the `complete_<ch> idx arg` op for child `idx` in thread `t`'s program (a thread may
    complete several children, with different channels) -/
def chOfThreadIdx (c : Case) (t idx : Nat) : Nat :=
  match c.threads[t]? with
  | some l =>
    let toks := (l.splitOn " ").filter (· != "")
    let rec go : List String → Option Nat
      | a :: b :: rest =>
        if a.startsWith "complete_" && b.toNat? == some idx then
          some (if a == "complete_value" then 0 else if a == "complete_stopped" then 1 else 2)
        else go (b :: rest)
      | _ => none
    (go toks).getD (chOfThread c t)
  | none => 0

def rsig (ch : Nat) (b : Int) : Shared.RSig :=
  if ch == 0 then .value b else if ch == 1 then .stopped else .error b

def toEvents (c : Case) (ls : List Line) : List (Option Shared.Ev × String) :=
  ls.filterMap (fun l =>
    let t := l.tid
    let ev (e : Shared.Ev) : Option (Option Shared.Ev × String) := some (some e, l.raw)
    match l.site with
    | "sl.lock" | "ag.yield" | "sh.chk1" => none
    -- life=1 cases: destroying a sender that was never connected is not an event of the protocol model
    | "inv.discard" | "ret.discard" | "life.rel" => none
    | "inv.complete" => ev (.invComplete t ⟨chOfThread c t, l.b⟩)
    | "fire.value" => ev (.fire t ⟨0, l.b⟩)
    | "fire.stopped" => ev (.fire t ⟨1, l.b⟩)
    | "fire.error" => ev (.fire t ⟨2, l.b⟩)
    | "inv.consume" => ev (.invConsume t l.a.toNat)
    | "sh.seen1" => ev (.seen1 t (l.a != 0))
    | "sh.seen2" => ev (.seen2 t (l.a != 0))
    | "sl.acq" => ev (.slAcq t)
    | "sl.rel" => ev (.slRel t)
    | "sh.done" => ev (.flag t l.a.toNat)
    | "sh.run" => ev (.run t l.a.toNat)
    | "rcv.value" => ev (.rcv t l.a.toNat (.value l.b))
    | "rcv.stopped" => ev (.rcv t l.a.toNat .stopped)
    | "rcv.error" => ev (.rcv t l.a.toNat (.error l.b))
    | "ret" => ev (.ret t)
    | "done" => ev (.tdone t)
    | _ => some (none, l.raw))

/-! ### ownership layer (`Model/SharedLife.lean`)

The hooks `sh.ref` / `sh.unref` / `sh.free` log every change of the shared state's reference count.  Lines
that the harness produces inside one atomic block (no preemption point between them) are one model event:
`inv.consume`+`sh.ref` (copy of the handle) = `consumeCopy`; `rcv.*`+`sh.unref`[+`sh.free`] (self-deleting
consumer) = `rcvDel`; `inv.discard`+`sh.unref`[+`sh.free`]+`ret.discard` = `discard`; a lone
`sh.unref`[+`sh.free`] = the predecessor's receiver leaving scope (`unrefR`).  Anything else (a lone `sh.ref` or
`sh.free`, `life.touch-after-release`, …) is unparsed = rejected. -/

/-- consumer indices named by `consume k` / `discard k` ops of the case's thread programs -/
def opIndices (c : Case) : List Nat :=
  c.threads.foldl (fun acc l =>
    let toks := (l.splitOn " ").filter (· != "")
    let rec go : List String → List Nat → List Nat
      | a :: b :: rest, acc => if a == "consume" || a == "discard" then go rest (acc ++ [b.toNat?.getD 0]) else go (b :: rest) acc
      | _, acc => acc
    go toks acc) []

def lifeCfg (c : Case) : SharedLife.Cfg :=
  let kind := match c.get "kind" with
    | "split_tuple" => Shared.Kind.tuple
    | "ensure_started" => Shared.Kind.es
    | _ => Shared.Kind.split
  let life := c.get "life" == "1"
  { kind := kind, stores := kind == .es || c.get "cfg" "fixed" != "pinned",
    rcvHolds := c.get "rcvref" "1" != "0", selfdel := life,
    handle := !life && kind == .split,
    snds := if kind == .tuple then [0, 1] else if kind == .split && !life then [] else opIndices c }

/-- `sh.unref n` optionally followed by `sh.free` of the same thread: (new count, freed, remaining lines) -/
def takeUnref (t : Nat) : List Line → Option (Nat × Bool × List Line)
  | u :: rest =>
    if u.site == "sh.unref" && u.tid == t then
      match rest with
      | f :: rest' => if f.site == "sh.free" && f.tid == t then some (u.a.toNat, true, rest') else some (u.a.toNat, false, rest)
      | [] => some (u.a.toNat, false, [])
    else none
  | [] => none

def rsigOfLine (l : Line) : Option Shared.RSig :=
  match l.site with
  | "rcv.value" => some (.value l.b)
  | "rcv.stopped" => some .stopped
  | "rcv.error" => some (.error l.b)
  | _ => none

partial def toLifeEvents (c : Case) : List Line → List (Option SharedLife.Ev × String)
  | [] => []
  | l :: rest =>
    let t := l.tid
    let base (e : Shared.Ev) := (some (SharedLife.Ev.base e), l.raw) :: toLifeEvents c rest
    match l.site with
    | "inv.complete" => base (.invComplete t ⟨chOfThread c t, l.b⟩)
    | "fire.value" => base (.fire t ⟨0, l.b⟩)
    | "fire.stopped" => base (.fire t ⟨1, l.b⟩)
    | "fire.error" => base (.fire t ⟨2, l.b⟩)
    | "inv.consume" =>
      match rest with
      | r :: rest' =>
        if r.site == "sh.ref" && r.tid == t then
          (some (.consumeCopy t l.a.toNat r.a.toNat), l.raw) :: toLifeEvents c rest'
        else base (.invConsume t l.a.toNat)
      | [] => base (.invConsume t l.a.toNat)
    | "sh.seen1" => base (.seen1 t (l.a != 0))
    | "sh.seen2" => base (.seen2 t (l.a != 0))
    | "sl.acq" => base (.slAcq t)
    | "sl.rel" => base (.slRel t)
    | "sh.done" => base (.flag t l.a.toNat)
    | "sh.run" => base (.run t l.a.toNat)
    | "rcv.value" | "rcv.stopped" | "rcv.error" =>
      match rsigOfLine l with
      | none => (none, l.raw) :: toLifeEvents c rest
      | some r =>
        -- only a self-deleting consumer (life=1) releases a reference inside its completion call; in the
        -- default mode a `sh.unref` after the last continuation is the predecessor's receiver leaving scope
        match (if c.get "life" == "1" then takeUnref t rest else none) with
        | some (n, fr, rest') => (some (.rcvDel t l.a.toNat r n fr), l.raw) :: toLifeEvents c rest'
        | none => base (.rcv t l.a.toNat r)
    | "inv.discard" =>
      match takeUnref t rest with
      | some (n, fr, r :: rest') =>
        if r.site == "ret.discard" && r.tid == t then (some (.discard t l.a.toNat n fr), l.raw) :: toLifeEvents c rest'
        else (none, l.raw) :: toLifeEvents c rest
      | _ => (none, l.raw) :: toLifeEvents c rest
    | "sh.unref" =>
      match takeUnref t (l :: rest) with
      | some (n, fr, rest') => (some (.unrefR t n fr), l.raw) :: toLifeEvents c rest'
      | none => (none, l.raw) :: toLifeEvents c rest
    | "ret" => base (.ret t)
    | "done" => base (.tdone t)
    | _ => (none, l.raw) :: toLifeEvents c rest

def accept {σ ε : Type} (step : σ → ε → Option σ) (s : σ) :
    List (Option ε × String) → Nat → Except (Nat × String) σ
  | [], _ => .ok s
  | (none, raw) :: _, i => .error (i, "unparsed: " ++ raw)
  | (some e, raw) :: rest, i =>
    match step s e with
    | some s' => accept step s' rest (i + 1)
    | none => .error (i, raw)

/-- Monitors for the shared-state kinds, from harness notes only. -/
def monitorsShared (c : Case) (ls : List Line) : List String :=
  let fires := ls.filter (fun l => l.site.startsWith "fire.")
  let consumers := (ls.filter (·.site == "inv.consume")).map (·.a.toNat)
  let rcvs := ls.filter (fun l => l.site.startsWith "rcv.")
  let tuple := c.get "kind" == "split_tuple"
  let v0 := if c.status == "ok" then [] else [s!"run ended with status '{c.status}'"]
  let v1 := if fires.length > 1 then [s!"predecessor completed {fires.length} times"] else []
  let v2 := consumers.filterMap (fun k =>
    let mine := rcvs.filter (·.a.toNat == k)
    match fires.head? with
    | none => if mine.isEmpty then none else some s!"consumer {k} was signalled although the predecessor never completed"
    | some f =>
      if c.status != "ok" then none
      else if mine.length != 1 then some s!"consumer {k} received {mine.length} completion signals (expected exactly 1)"
      else
        let r := mine.headD f
        let want := if chOfSite f.site == some 0 then (if tuple then f.b + 100 * k else f.b) else if chOfSite f.site == some 1 then 0 else f.b
        if chOfSite r.site != chOfSite f.site || r.b != want then
          some s!"consumer {k} received {r.site} {r.b} but the predecessor completed with {f.site} {f.b}"
        else none)
  let v3 := rcvs.filterMap (fun r => if consumers.contains r.a.toNat then none else some s!"signal for consumer {r.a} that was never started")
  -- life=1: every sender was consumed (self-deleting operation state) or discarded and the handle is gone, so
  -- after a completed run the shared state must have been destroyed exactly once
  let v4 := if c.get "life" != "1" || c.status != "ok" || fires.isEmpty then [] else
    match (ls.filter (·.site == "life.rel")).getLast? with
    | none => ["life=1 case without a life.rel note"]
    | some l => if l.a == 1 && l.b == 1 then [] else
        [s!"shared state allocated {l.b} time(s) but released {l.a} time(s) after every owner was gone (destroyed exactly once expected)"]
  let v5 := if ls.any (·.site == "life.touch-after-release") then
      ["the shared state was accessed after its last reference had been released (touch after release; guard allocator fault)"]
    else if ls.any (·.site == "life.segv") then ["segmentation fault outside the guarded shared state"] else []
  v5 ++ v0 ++ v1 ++ v2 ++ v3 ++ v4

def pcName : Shared.Pc → String
  | .idle => "idle" | .fin => "fin" | _ => "busy"

def runShared (c : Case) (ls : List Line) : String :=
  let n := c.threads.length
  let kind := match c.get "kind" with
    | "split_tuple" => Shared.Kind.tuple
    | "ensure_started" => Shared.Kind.es
    | _ => Shared.Kind.split
  let _ := kind
  let cfg := lifeCfg c
  -- scheduling noise and the harness' own bookkeeping notes are not model events
  let core := ls.filter (fun l => !(["sl.lock", "ag.yield", "sh.chk1", "life.rel", "life.init"].contains l.site))
  let evs := toLifeEvents c core
  let evs := if c.status == "abort" then
      evs ++ [(some (SharedLife.Ev.base (Shared.Ev.abort ((ls.getLast?.map (·.tid)).getD 0))), "end abort")] else evs
  let mon := monitorsShared c ls
  let monS := if mon.isEmpty then "monitors ok" else "monitors FAIL: " ++ " | ".intercalate mon
  let s0 := SharedLife.init cfg
  -- the reference count after the set-up, as the harness read it from the real object
  match (ls.filter (·.site == "life.init")).head? with
  | none => s!"case {c.id} reject 0 [no life.init line] ; {monS}"
  | some li =>
  if li.a.toNat != s0.rc then
    s!"case {c.id} reject 0 [{li.raw}: the model starts with reference count {s0.rc}] ; {monS}" else
  match accept SharedLife.step s0 evs 0 with
  | .error (i, raw) => s!"case {c.id} reject {i} [{raw}] ; {monS}"
  | .ok sl =>
    let s := sl.b
    -- ownership: what the model says about `freed` must be what the guard allocator saw
    let relOk := match (ls.filter (·.site == "life.rel")).getLast? with
      | none => c.get "life" != "1" || c.status != "ok"
      | some l => (l.a == 1) == sl.freed && l.a.toNat == sl.nfree
    if !relOk then s!"case {c.id} accept {evs.length} ; final MISMATCH: model freed={sl.freed} nfree={sl.nfree} disagrees with the run's life.rel ; {monS}" else
    if sl.uaf then s!"case {c.id} accept {evs.length} ; final MISMATCH: model reached touch-after-release ; {monS}" else
    let classes := (List.range n).map (fun t => pcName (s.pc t))
    let fin :=
      if c.status == "ok" then
        -- the history fields of the model, about which the theorems speak, must say what the
        -- harness observed: every started consumer got exactly one signal (C03_split_each_consumer_once)
        let consumers := (ls.filter (·.site == "inv.consume")).map (·.a.toNat)
        let fired := ls.any (fun l => l.site.startsWith "fire.")
        let ghostOk := !fired || consumers.all (fun k => s.got k == 1 && (s.gotSig k).isSome)
        if classes.all (· == "fin") && !s.aborted && ghostOk then "final ok"
        else if !ghostOk then "final MISMATCH: model history (got/gotSig) disagrees with the run"
        else "final MISMATCH: run ended but model threads " ++ toString classes
      else if c.status == "abort" then
        if s.aborted then "final aborted-as-modelled" else "final MISMATCH: abort not modelled"
      else s!"final status {c.status}"
    s!"case {c.id} accept {evs.length} ; {fin} ; {monS}"

/-! ### when_all -/

def toEventsWA (c : Case) (ls : List Line) : List (Option WhenAll.Ev × String) :=
  ls.filterMap (fun l =>
    let t := l.tid
    let ev (e : WhenAll.Ev) : Option (Option WhenAll.Ev × String) := some (some e, l.raw)
    match l.site with
    | "sl.lock" | "ag.yield" => none
    -- C03w: count of guarded operation states destroyed so far (compared with the model's `nfree` at the end)
    | "life.oprel" => none
    | "inv.start" => ev (.invStart t)
    | "inv.complete" => ev (.invComplete t l.a.toNat (chOfThreadIdx c t l.a.toNat) l.b)
    | "fire.value" => ev (.fire t l.a.toNat 0 l.b)
    | "fire.stopped" => ev (.fire t l.a.toNat 1 l.b)
    | "fire.error" => ev (.fire t l.a.toNat 2 l.b)
    | "wa.sig" => ev (.sig t l.a.toNat)
    | "wa.latch" => ev (.latch t)
    | "wa.store" => ev (.store t l.a.toNat)
    | "wa.fin" => ev (.dec t)
    | "wa.zero" => ev (.zero t (l.a != 0) (l.b != 0))
    | "rcv.value" => ev (.rcv t 0 l.b)
    | "rcv.stopped" => ev (.rcv t 1 0)
    | "rcv.error" => ev (.rcv t 2 l.b)
    | "ret" => ev (.ret t)
    | "done" => ev (.tdone t)
    | _ => some (none, l.raw))

/-- Monitors for when_all: exactly one signal once all predecessors completed; value iff all
    values (in predecessor order); an error only if some predecessor sent that error. -/
def monitorsWA (c : Case) (ls : List Line) : List String :=
  let n := c.getNat "n"
  let fires := ls.filter (fun l => l.site.startsWith "fire.")
  let rcvs := ls.filter (fun l => l.site.startsWith "rcv.")
  let v0 := if c.status == "ok" then [] else [s!"run ended with status '{c.status}'"]
  let v1 := if c.status == "ok" && fires.length == n && rcvs.length != 1 then
      [s!"when_all delivered {rcvs.length} signals after all {n} predecessors completed"] else []
  let v1b := if rcvs.length > 1 then [s!"when_all delivered {rcvs.length} signals"] else []
  let v2 := match rcvs.head? with
    | none => []
    | some r =>
      let allVal := fires.all (·.site == "fire.value")
      if r.site == "rcv.value" then
        let enc := (List.range n).foldl (fun acc i =>
          match fires.find? (·.a.toNat == i) with
          | some f => acc + f.b * (16 ^ i : Nat)
          | none => acc) (0 : Int)
        if !allVal || fires.length != n then ["when_all delivered a value although not all predecessors sent values"]
        else if r.b != enc then [s!"when_all delivered values {r.b}, expected {enc} (predecessor order)"] else []
      else if r.site == "rcv.error" then
        if fires.any (fun f => f.site == "fire.error" && f.b == r.b) then [] else [s!"when_all delivered error {r.b} that no predecessor sent"]
      else
        if fires.any (·.site == "fire.stopped") then [] else ["when_all delivered stopped although no predecessor was stopped"]
  v0 ++ v1 ++ v1b ++ v2

/-- C03w monitors, from the raw log only: the downstream completion is issued by the thread whose `wa.fin`
    was the `n`-th (last) decrement, from inside that call (`wa.zero` by the same thread in between); after the
    last decrement no other thread produces any `fire.*` / `wa.*` / `rcv.*` line; at most `n` decrements; with
    life=1 the guarded operation state is destroyed at most once, and exactly once when everything completed;
    nothing faults on the destroyed operation state. -/
def monitorsWALife (c : Case) (ls : List Line) : List String :=
  let n := c.getNat "n"
  let isCall (l : Line) : Bool := l.site.startsWith "wa." || l.site.startsWith "fire." || l.site.startsWith "rcv."
  let fins := ls.filter (·.site == "wa.fin")
  let rcvs := ls.filter (fun l => l.site.startsWith "rcv.")
  let fires := ls.filter (fun l => l.site.startsWith "fire.")
  let started := ls.any (·.site == "inv.start")
  let m0 := if ls.any (·.site == "life.touch-after-release") then
      ["the when_all operation state was accessed after the completing call destroyed it (touch after release; guard fault)"]
    else if ls.any (·.site == "life.segv") then ["segmentation fault outside the guarded operation state"] else []
  let m1 := if fins.length > n then [s!"{fins.length} decrements of predecessors_remaining for {n} children"] else []
  -- everything after the n-th decrement
  let rec afterLast : List Line → Nat → List Line → Option (List Line × Line × List Line)
    | [], _, _ => none
    | l :: rest, k, pre =>
      if l.site == "wa.fin" then (if k + 1 == n then some (pre.reverse, l, rest) else afterLast rest (k + 1) (l :: pre))
      else afterLast rest k (l :: pre)
  let m2 := if n == 0 then
      (match rcvs.head?, (ls.filter (·.site == "inv.start")).head? with
       | some r, some st => if r.tid == st.tid then [] else ["when_all_vector of no senders: completion not issued by start()"]
       | some _, none => ["completion without start()"]
       | none, _ => [])
    else match afterLast ls 0 [] with
    | none => if rcvs.isEmpty then [] else ["downstream completion before the last decrement"]
    | some (before, lf, rest) =>
      let foreign := rest.filter (fun l => isCall l && l.tid != lf.tid)
      let a := if foreign.isEmpty then [] else
        [s!"thread {(foreign.headD lf).tid} accessed the operation state ({(foreign.headD lf).site}) after the last decrement, made by thread {lf.tid}"]
      let b := match rcvs.head? with
        | some r => if r.tid != lf.tid then [s!"completion issued by thread {r.tid}, the last decrement was made by thread {lf.tid}"]
                    else if !(rest.any (fun l => l.site == "wa.zero" && l.tid == lf.tid)) then ["completion without wa.zero of the last child"] else []
        | none => []
      let c' := if before.any (fun l => l.site.startsWith "rcv.") then
          ["downstream completion before the last decrement"] else []
      a ++ b ++ c'
  let m3 := if c.get "life" != "1" then [] else
    match (ls.filter (·.site == "life.oprel")).getLast? with
    | none => if c.status == "ok" then ["life=1 case without a life.oprel note"] else []
    | some l =>
      if l.a > 1 then [s!"operation state destroyed {l.a} times"]
      else if c.status == "ok" && started && fires.length == n && l.a != 1 then
        [s!"every child completed but the self-deleting operation state was destroyed {l.a} times (exactly once expected)"]
      else []
  -- the decision, recomputed from the raw log: the first non-value child to reach the flag (`wa.sig` with channel
  -- 1 / 2; its completion is the last `fire.*` line of the same thread) decides; none = value
  let rec firstNonValue : List Line → List (Nat × Nat × Int) → Option (Nat × Int)
    | [], _ => none
    | l :: rest, cur =>
      if l.site.startsWith "fire." then
        firstNonValue rest ((l.tid, (chOfSite l.site).getD 0, l.b) :: cur.filter (·.1 != l.tid))
      else if l.site == "wa.sig" && l.a != 0 then
        match cur.find? (·.1 == l.tid) with
        | some (_, ch, arg) => some (ch, arg)
        | none => some (l.a.toNat, 0)
      else firstNonValue rest cur
  let m4 := match rcvs.head?, firstNonValue ls [] with
    | some r, some (ch, arg) =>
      if ch == 1 then (if r.site == "rcv.stopped" then [] else [s!"the first non-value child to reach the flag was stopped, but {r.site} {r.b} was delivered"])
      else if r.site == "rcv.error" && r.b == arg then [] else
        [s!"the first non-value child to reach the flag failed with error {arg} (winner of the exchange), but {r.site} {r.b} was delivered"]
    | some r, none => if r.site == "rcv.value" then [] else [s!"{r.site} delivered although no child failed or was stopped"]
    | none, _ => []
  m0 ++ m1 ++ m2 ++ m3 ++ m4

def runWA (c : Case) (ls : List Line) : String :=
  let n := c.getNat "n"
  let evs := toEventsWA c ls
  let mon := monitorsWA c ls ++ monitorsWALife c ls
  let monS := if mon.isEmpty then "monitors ok" else "monitors FAIL: " ++ " | ".intercalate mon
  let cfg : WhenAllLife.Cfg := { vector := c.get "kind" == "when_all_vector", selfdel := c.get "life" == "1" }
  -- C03w: the log is replayed through the life-cycle layer (which runs `WhenAll.step` underneath)
  match accept WhenAllLife.step (WhenAllLife.init cfg n) evs 0 with
  | .error (i, raw) => s!"case {c.id} reject {i} [{raw}] ; {monS}"
  | .ok sl =>
    let s := sl.b
    let allFired := (List.range n).all (fun i => s.firedI i)
    let rcvs := ls.filter (fun l => l.site.startsWith "rcv.")
    -- the model's history must say what the theorems claim and what the harness saw
    let ghostOk := !allFired || !sl.started || (s.delivered == 1 &&
      (n == 0 || s.result == some (WhenAll.decisionG s)) && rcvs.length == 1)
    -- C03w: issuer / last child / destruction as the run shows them
    let issuerOk := match rcvs.head? with
      | some r => sl.issuerT == some r.tid && (n == 0 || (sl.issuer.isSome && sl.issuer == sl.lastC && s.lastT == r.tid))
      | none => sl.issuerT.isNone
    let relOk := match (ls.filter (·.site == "life.oprel")).getLast? with
      | none => c.get "life" != "1" || c.status != "ok"
      | some l => l.a.toNat == sl.nfree && (l.a == 1) == sl.freed
    let fin := if c.status == "ok" then
        (if !ghostOk then "final MISMATCH: model history (delivered/result/decisionG) disagrees with the run"
         else if sl.uaf then "final MISMATCH: model reached touch-after-release"
         else if !issuerOk then "final MISMATCH: model history (issuer / last child) disagrees with the run"
         else if !relOk then s!"final MISMATCH: model freed={sl.freed} nfree={sl.nfree} disagrees with the run's life.oprel"
         else if (List.range c.threads.length).all (fun t => s.pc t == .fin) then "final ok"
         else "final MISMATCH: run ended but model threads are not finished")
      else s!"final status {c.status}"
    s!"case {c.id} accept {evs.length} ; {fin} ; {monS}"

/-! ### schedule_from (C03x)

`kind=schedule_from`: the real `schedule_from` over the harness' manual leaf (counted value type) and manual
scheduler.  Lines -> events of `Model/SchedFromLife.lean`: `inv.start` = `start`, `fire.* 0` = `pred`, `sf.store`
(copy / move construction of the value inside the operation state) = `store`, `sf.conn` (constructor of the
scheduler's operation state) = `conn`, `sf.sstart` = `sstart`, `fire.* 1` = `sch`, `sf.sopdtor` (destructor of the
scheduler's operation state) = `reset`, `rcv.*` = `fwd`, `ret`, `done`.  Not model events: the harness' requests
(`inv.complete`, `inv.sched`, `ret.pending`), the pure preemption point `sf.armed`, `life.oprel`, and `sf.tsdtor`
(destruction of the stored value: part of the destruction of the operation state inside `fwd`; counted and
compared with the model at the end). -/

def sfSig (ch : Nat) (b : Int) : SchedFromLife.Sig :=
  if ch == 0 then .value b.toNat else if ch == 1 then .stopped else .error b.toNat

def toEventsSF (ls : List Line) : List (Option SchedFromLife.Ev × String) :=
  ls.filterMap (fun l =>
    let t := l.tid
    let ev (e : SchedFromLife.Ev) : Option (Option SchedFromLife.Ev × String) := some (some e, l.raw)
    let comp (ch : Nat) : Option (Option SchedFromLife.Ev × String) :=
      if l.a == 0 then ev (.pred t (sfSig ch l.b)) else if l.a == 1 then ev (.sch t (sfSig ch l.b)) else some (none, l.raw)
    match l.site with
    | "sl.lock" | "ag.yield" | "life.oprel" | "inv.complete" | "inv.sched" | "ret.pending" | "sf.armed" | "sf.tsdtor" => none
    | "inv.start" => ev (.start t)
    | "fire.value" => comp 0
    | "fire.stopped" => comp 1
    | "fire.error" => comp 2
    | "sf.store" => ev (.store t true)
    -- sthrow=1: the copy / move of the value throws; the model's `store t false` = std::terminate
    | "lt.storethrow" => ev (.store t false)
    | "sf.conn" => ev (.conn t true)
    | "sf.sstart" => ev (.sstart t)
    | "sf.sopdtor" => ev (.reset t)
    | "rcv.value" => ev (.fwd t (.value l.b.toNat))
    | "rcv.stopped" => ev (.fwd t .stopped)
    | "rcv.error" => ev (.fwd t (.error l.b.toNat))
    | "ret" => ev (.ret t)
    | "done" => ev (.tdone t)
    | _ => some (none, l.raw))

/-- C03x monitors, from the raw log only: exactly the denoted completion, once; the scheduler's operation state is
    destroyed before the downstream completion; after the downstream completion nothing but the destruction of the
    stored value (self-deleting operation state) happens to the operation state; every stored object is destroyed
    at most once, exactly once when the operation state is gone; nothing faults on the destroyed operation state. -/
def monitorsSF (c : Case) (ls : List Line) : List String :=
  let cnt (site : String) : Nat := (ls.filter (·.site == site)).length
  let rcvs := ls.filter (fun l => l.site.startsWith "rcv.")
  let f0 := (ls.filter (fun l => l.site.startsWith "fire." && l.a == 0))
  let f1 := (ls.filter (fun l => l.site.startsWith "fire." && l.a == 1))
  let m0 := if ls.any (·.site == "life.touch-after-release") then
      ["the schedule_from operation state was accessed after the downstream completion destroyed it (touch after release; guard fault)"]
    else if ls.any (·.site == "life.segv") then ["segmentation fault outside the guarded operation state"] else []
  let m1 := if c.status == "ok" then [] else
    if ls.any (·.site == "lt.storethrow") then
      [s!"run ended with status '{c.status}': an exception thrown while storing the predecessor's values terminated the process (set_value_predecessor_sender is noexcept without try/catch); the composition denotes set_error with that exception"]
    else [s!"run ended with status '{c.status}'"]
  let m2 := if f0.length > 1 || f1.length > 1 then ["harness: predecessor / scheduler completed twice"] else []
  let want : Option (String × Int) := match f0.head?, f1.head? with
    | none, _ => none
    | some p, q =>
      if p.site != "fire.value" then some (p.site.replace "fire." "rcv.", if p.site == "fire.stopped" then 0 else p.b)
      else match q with
        | none => none
        | some q => if q.site == "fire.value" then some ("rcv.value", p.b)
                    else some (q.site.replace "fire." "rcv.", if q.site == "fire.stopped" then 0 else q.b)
  let m3 := if c.status != "ok" then [] else match want, rcvs with
    | none, [] => []
    | none, r :: _ => [s!"{r.site} {r.b} delivered although the adaptor has nothing to deliver yet"]
    | some (w, v), [] => [s!"no downstream completion, expected {w} {v}"]
    | some (w, v), [r] => if r.site == w && r.b == v then [] else [s!"{r.site} {r.b} delivered, the composition denotes {w} {v}"]
    | some _, _ => [s!"{rcvs.length} downstream completions (exactly one expected)"]
  -- everything after the first downstream completion
  let rec after : List Line → Option (Line × List Line)
    | [] => none
    | l :: rest => if l.site.startsWith "rcv." then some (l, rest) else after rest
  let m4 := match after ls with
    | none => []
    | some (r, rest) =>
      let late := rest.filter (fun l => l.site.startsWith "fire." || l.site.startsWith "rcv." ||
        ["sf.store", "sf.conn", "sf.sstart", "sf.sopdtor", "inv.start"].contains l.site)
      let a := match late.head? with
        | some l => [s!"thread {l.tid}: {l.site} after the downstream completion ({r.site} by thread {r.tid}): the forwarding call is not the last access to the operation state"]
        | none => []
      let b := if (rest.filter (·.site == "sf.tsdtor")).any (fun l => c.get "life" != "1" || l.tid != r.tid) then
          ["stored value destroyed by somebody else than the self-deleting downstream receiver"] else []
      a ++ b
  let m5 := (if cnt "sf.store" > 1 then [s!"values stored {cnt "sf.store"} times"] else []) ++
    (if cnt "sf.conn" > 1 then [s!"scheduler operation state constructed {cnt "sf.conn"} times"] else []) ++
    (if cnt "sf.sopdtor" > cnt "sf.conn" then [s!"scheduler operation state constructed {cnt "sf.conn"} time(s), destroyed {cnt "sf.sopdtor"} time(s)"] else []) ++
    (if cnt "sf.tsdtor" > cnt "sf.store" then [s!"stored value constructed {cnt "sf.store"} time(s), destroyed {cnt "sf.tsdtor"} time(s)"] else []) ++
    (if !rcvs.isEmpty && cnt "sf.sopdtor" != cnt "sf.conn" then
      ["downstream completion issued while the scheduler's operation state is still alive (reset must precede the forwarding)"] else [])
  let m6 := if c.get "life" != "1" then [] else
    match (ls.filter (·.site == "life.oprel")).getLast? with
    | none => if c.status == "ok" then ["life=1 case without a life.oprel note"] else []
    | some l =>
      if l.a > 1 then [s!"operation state destroyed {l.a} times"]
      else if c.status == "ok" && !rcvs.isEmpty && (l.a != 1 || cnt "sf.tsdtor" != cnt "sf.store") then
        [s!"completed with a self-deleting receiver: operation state destroyed {l.a} time(s), stored value constructed {cnt "sf.store"} / destroyed {cnt "sf.tsdtor"} (exactly once expected)"]
      else []
  m0 ++ m1 ++ m2 ++ m3 ++ m4 ++ m5 ++ m6

def runSF (c : Case) (ls : List Line) : String :=
  let evs := toEventsSF ls
  let mon := monitorsSF c ls
  let monS := if mon.isEmpty then "monitors ok" else "monitors FAIL: " ++ " | ".intercalate mon
  let cfg : SchedFromLife.Cfg := { selfdel := c.get "life" == "1", swapV := false, swapE := false, swapS := false, poison := true }
  match accept SchedFromLife.step (SchedFromLife.init cfg) evs 0 with
  | .error (i, raw) => s!"case {c.id} reject {i} [{raw}] ; {monS}"
  | .ok s =>
    let cnt (site : String) : Nat := (ls.filter (·.site == site)).length
    let rcvs := ls.filter (fun l => l.site.startsWith "rcv.")
    -- the model's history, about which the theorems speak, must say what the run shows
    let countsOk := s.tsCtor == cnt "sf.store" && s.tsDtor == cnt "sf.tsdtor" && s.sopCtor == cnt "sf.conn" &&
      s.sopDtor == cnt "sf.sopdtor" && s.delivered == rcvs.length
    let relOk := match (ls.filter (·.site == "life.oprel")).getLast? with
      | none => c.get "life" != "1" || c.status != "ok"
      | some l => l.a.toNat == s.nfree && (l.a == 1) == s.freed
    -- C03x_sf_exactly_one_completion at the final state
    let doneOk := s.predSig.isNone || (s.sopArmed && s.schSig.isNone) || s.delivered == 1
    let resOk := s.delivered == 0 || (s.result.isSome && s.result == SchedFromLife.expected s)
    let fin := if c.status == "ok" then
        (if s.uaf then "final MISMATCH: model reached touch-after-release"
         else if s.aborted then "final MISMATCH: model aborted"
         else if !countsOk then s!"final MISMATCH: model counters (ts {s.tsCtor}/{s.tsDtor}, scheduler op {s.sopCtor}/{s.sopDtor}, delivered {s.delivered}) disagree with the run"
         else if !relOk then s!"final MISMATCH: model freed={s.freed} nfree={s.nfree} disagrees with the run's life.oprel"
         else if !doneOk then "final MISMATCH: everything completed but the model has no downstream completion"
         else if !resOk then "final MISMATCH: model result is not the denoted completion"
         else if (List.range c.threads.length).all (fun t => s.pc t == .fin) then "final ok"
         else "final MISMATCH: run ended but model threads are not finished")
      else if c.status == "abort" then
        (if s.aborted then "final aborted-as-modelled" else "final MISMATCH: abort not modelled")
      else s!"final status {c.status}"
    s!"case {c.id} accept {evs.length} ; {fin} ; {monS}"

/-! ### let_value / let_error (C03x)

`kind=let_value|let_error`: the real adaptor over the harness' manual leaf (counted value), a user function that
logs its call and returns the harness' successor sender.  Lines -> events of `Model/LetLife.lean`: `inv.start` =
`start`, `fire.* 0` = `pred`, `sf.store` = `store none`, `lt.storethrow e` = `store (some e)`, `lt.call` = `call none`,
`lt.callthrow v e` = `call (some e)`, `lt.conn` = `conn none`, `lt.sstart` = `sstart`, `fire.* 1` immediately followed
by `rcv.*` of the same thread = `succ` (the successor completes the downstream receiver it owns), any other `rcv.*`
= `fwd`.  let_error stores an `exception_ptr` (no observable copy): `store none` is supplied in front of the
`lt.call` / `lt.callthrow` line.  Dropped and counted: `lt.sopdtor`, `sf.tsdtor` (destruction of the operation state
inside the completion), the harness' requests, `sf.armed`, `life.oprel`. -/

/-- one line: the events it stands for, and whether it is a completion of the successor that must be followed by
    the downstream receiver's line -/
def lineLT (onErr : Bool) (l : Line) : List (Option LetLife.Ev × String) × Option Line :=
  let t := l.tid
  let ev (e : LetLife.Ev) : List (Option LetLife.Ev × String) × Option Line := ([(some e, l.raw)], none)
  let pre : List (Option LetLife.Ev × String) := if onErr then [(some (.store t none), l.raw)] else []
  match l.site with
  | "sl.lock" | "ag.yield" | "life.oprel" | "inv.complete" | "inv.sched" | "ret.pending" | "sf.armed" | "sf.tsdtor"
  | "lt.sopdtor" => ([], none)
  | "inv.start" => ev (.start t)
  | "sf.store" => ev (.store t none)
  | "lt.storethrow" => ev (.store t (some l.a.toNat))
  | "lt.call" => (pre ++ [(some (.call t none), l.raw)], none)
  | "lt.callthrow" => (pre ++ [(some (.call t (some l.b.toNat)), l.raw)], none)
  | "lt.conn" => ev (.conn t none false)
  | "lt.sstart" => ev (.sstart t)
  | "rcv.value" => ev (.fwd t (.value l.b.toNat))
  | "rcv.stopped" => ev (.fwd t .stopped)
  | "rcv.error" => ev (.fwd t (.error l.b.toNat))
  | "ret" => ev (.ret t)
  | "done" => ev (.tdone t)
  | "fire.value" | "fire.stopped" | "fire.error" =>
    if l.a == 0 then ev (.pred t (sfSig ((chOfSite l.site).getD 0) l.b)) else ([], some l)
  | _ => ([(none, l.raw)], none)

def toEventsLT (onErr : Bool) : Option Line → List Line → List (Option LetLife.Ev × String)
  | none, [] => []
  | some f, [] => [(none, f.raw)]
  | some f, r :: rest =>
    if r.tid == f.tid && r.site.startsWith "rcv." then
      (some (.succ r.tid (sfSig ((chOfSite r.site).getD 0) r.b)), f.raw ++ " / " ++ r.raw) :: toEventsLT onErr none rest
    else (none, f.raw) :: toEventsLT onErr none rest
  | none, l :: rest => (lineLT onErr l).1 ++ toEventsLT onErr (lineLT onErr l).2 rest

/-- C03x monitors for the let kinds, from the raw log only. -/
def monitorsLT (c : Case) (ls : List Line) : List String :=
  let onErr := c.get "kind" == "let_error"
  let cnt (site : String) : Nat := (ls.filter (·.site == site)).length
  let rcvs := ls.filter (fun l => l.site.startsWith "rcv.")
  let f0 := (ls.filter (fun l => l.site.startsWith "fire." && l.a == 0))
  let f1 := (ls.filter (fun l => l.site.startsWith "fire." && l.a == 1))
  let asRcv (f : Line) : String × Int := (f.site.replace "fire." "rcv.", if f.site == "fire.stopped" then 0 else f.b)
  let m0 := if ls.any (·.site == "life.touch-after-release") then
      ["the let_value / let_error operation state was accessed after the downstream completion destroyed it (touch after release; guard fault)"]
    else if ls.any (·.site == "life.segv") then ["segmentation fault outside the guarded operation state"] else []
  let m1 := if c.status == "ok" then [] else [s!"run ended with status '{c.status}'"]
  let want : Option (String × Int) := match f0.head? with
    | none => none
    | some p =>
      let storedCh := if onErr then "fire.error" else "fire.value"
      if p.site != storedCh then some (asRcv p)
      else if ls.any (·.site == "lt.storethrow") then some ("rcv.error", 41)
      else if ls.any (·.site == "lt.callthrow") then some ("rcv.error", 42)
      else f1.head?.map asRcv
  let m3 := if c.status != "ok" then [] else match want, rcvs with
    | none, [] => []
    | none, r :: _ => [s!"{r.site} {r.b} delivered although the adaptor has nothing to deliver yet"]
    | some (w, v), [] => [s!"no downstream completion, expected {w} {v}"]
    | some (w, v), [r] => if r.site == w && r.b == v then [] else [s!"{r.site} {r.b} delivered, the composition denotes {w} {v}"]
    | some _, _ => [s!"{rcvs.length} downstream completions (exactly one expected)"]
  -- the user function reads the stored payload through the reference it is given
  let m3b := match f0.head?, (ls.filter (fun l => l.site == "lt.call" || l.site == "lt.callthrow")).head? with
    | some p, some cl => if cl.a == p.b then [] else [s!"the user function saw the payload {cl.a}, the predecessor sent {p.b}"]
    | _, _ => []
  let rec after : List Line → Option (Line × List Line)
    | [] => none
    | l :: rest => if l.site.startsWith "rcv." then some (l, rest) else after rest
  let m4 := match after ls with
    | none => []
    | some (r, rest) =>
      let late := rest.filter (fun l => l.site.startsWith "fire." || l.site.startsWith "rcv." ||
        ["sf.store", "lt.storethrow", "lt.call", "lt.callthrow", "lt.conn", "lt.sstart", "inv.start"].contains l.site)
      let a := match late.head? with
        | some l => [s!"thread {l.tid}: {l.site} after the downstream completion ({r.site} by thread {r.tid}): the completion is not the last access to the operation state"]
        | none => []
      let b := if (rest.filter (fun l => l.site == "sf.tsdtor" || l.site == "lt.sopdtor")).any (fun l => c.get "life" != "1" || l.tid != r.tid) then
          ["stored value / successor operation state destroyed by somebody else than the self-deleting downstream receiver"] else []
      a ++ b
  let m5 := (if cnt "sf.store" > 1 then [s!"values stored {cnt "sf.store"} times"] else []) ++
    (if cnt "lt.conn" > 1 then [s!"successor operation state constructed {cnt "lt.conn"} times"] else []) ++
    (if cnt "lt.sopdtor" > cnt "lt.conn" then [s!"successor operation state constructed {cnt "lt.conn"} time(s), destroyed {cnt "lt.sopdtor"} time(s)"] else []) ++
    (if cnt "sf.tsdtor" > cnt "sf.store" then [s!"stored value constructed {cnt "sf.store"} time(s), destroyed {cnt "sf.tsdtor"} time(s)"] else []) ++
    (match after ls with
     | some (_, _) => if (ls.takeWhile (fun l => !l.site.startsWith "rcv.")).any (fun l => l.site == "sf.tsdtor" || l.site == "lt.sopdtor") then
         ["stored value / successor operation state destroyed before the downstream completion"] else []
     | none => if cnt "sf.tsdtor" + cnt "lt.sopdtor" > 0 then ["stored value / successor operation state destroyed although nothing was delivered"] else [])
  let m6 := if c.get "life" != "1" then [] else
    match (ls.filter (·.site == "life.oprel")).getLast? with
    | none => if c.status == "ok" then ["life=1 case without a life.oprel note"] else []
    | some l =>
      if l.a > 1 then [s!"operation state destroyed {l.a} times"]
      else if c.status == "ok" && !rcvs.isEmpty && (l.a != 1 || cnt "sf.tsdtor" != cnt "sf.store" || cnt "lt.sopdtor" != cnt "lt.conn") then
        [s!"completed with a self-deleting receiver: operation state destroyed {l.a} time(s), stored value {cnt "sf.store"} / {cnt "sf.tsdtor"}, successor operation state {cnt "lt.conn"} / {cnt "lt.sopdtor"} (constructed / destroyed; exactly once expected)"]
      else []
  m0 ++ m1 ++ m3 ++ m3b ++ m4 ++ m5 ++ m6

def runLT (c : Case) (ls : List Line) : String :=
  let onErr := c.get "kind" == "let_error"
  let evs := toEventsLT onErr none ls
  let mon := monitorsLT c ls
  let monS := if mon.isEmpty then "monitors ok" else "monitors FAIL: " ++ " | ".intercalate mon
  let cfg : LetLife.Cfg := { selfdel := c.get "life" == "1", onError := onErr }
  match accept LetLife.step (LetLife.init cfg) evs 0 with
  | .error (i, raw) => s!"case {c.id} reject {i} [{raw}] ; {monS}"
  | .ok s =>
    let cnt (site : String) : Nat := (ls.filter (·.site == site)).length
    let rcvs := ls.filter (fun l => l.site.startsWith "rcv.")
    -- let_error: the stored exception_ptr has no observable construction / destruction
    let countsOk := (onErr || (s.tsCtor == cnt "sf.store" && s.tsDtor == cnt "sf.tsdtor")) && s.sopCtor == cnt "lt.conn" &&
      s.sopDtor == cnt "lt.sopdtor" && s.delivered == rcvs.length
    let relOk := match (ls.filter (·.site == "life.oprel")).getLast? with
      | none => c.get "life" != "1" || c.status != "ok"
      | some l => l.a.toNat == s.nfree && (l.a == 1) == s.freed
    let doneOk := s.predSig.isNone || (s.sopArmed && s.succSig.isNone) || s.delivered == 1
    let resOk := s.delivered == 0 || (s.result.isSome && s.result == LetLife.expected s)
    let fin := if c.status == "ok" then
        (if s.uaf then "final MISMATCH: model reached touch-after-release"
         else if s.hollow then "final MISMATCH: model completed a moved-from receiver"
         else if !countsOk then s!"final MISMATCH: model counters (stored {s.tsCtor}/{s.tsDtor}, successor op {s.sopCtor}/{s.sopDtor}, delivered {s.delivered}) disagree with the run"
         else if !relOk then s!"final MISMATCH: model freed={s.freed} nfree={s.nfree} disagrees with the run's life.oprel"
         else if !doneOk then "final MISMATCH: everything completed but the model has no downstream completion"
         else if !resOk then "final MISMATCH: model result is not the denoted completion"
         else if (List.range c.threads.length).all (fun t => s.pc t == .fin) then "final ok"
         else "final MISMATCH: run ended but model threads are not finished")
      else s!"final status {c.status}"
    s!"case {c.id} accept {evs.length} ; {fin} ; {monS}"

def runCase (c : Case) : String :=
  let parsed := c.lines.map parseLine
  if parsed.any Option.isNone then s!"case {c.id} reject 0 malformed-line ; monitors FAIL: malformed line" else
  let ls := parsed.filterMap id
  if c.get "kind" == "schedule_from" then runSF c ls else
  if c.get "kind" == "let_value" || c.get "kind" == "let_error" then runLT c ls else
  if c.get "kind" == "when_all" || c.get "kind" == "when_all_vector" then runWA c ls else runShared c ls

end Driver.SharedDrv
