import PikaVerif.Model.Mtx
import PikaVerif.Model.Rec
import Driver.Util
/-! Driver for the mutex model (C06, `pika::mutex` / `pika::timed_mutex`): parser, acceptor
    run, independent monitors. -/
namespace Driver.MtxDrv
open PikaVerif PikaVerif.Mtx Driver

def resOfCode (a : Int) : Option Res :=
  if a == 1 then some .ok else if a == 0 then some .fail
  else if a == 2 then some .errDeadlock else if a == 3 then some .errLock else none

/-- Translate hook lines to model events.  Dropped as stutter (no state change in the model):
    `sl.lock`, `ag.yield` (spinning on the internal spinlock), the perturbation points
    `mtx.wait`, `mtx.notify`, `mtx.twait`,
    and the harness' own points `cs.pre`, `cs.yield`.  `cv.pop` must be followed immediately by
    the agent call of the same thread and is merged with it. -/
partial def toEvents : List Line → List (Option Ev × String) → List (Option Ev × String)
  | [], acc => acc.reverse
  | l :: rest, acc =>
    let t := l.tid
    let push (e : Ev) := toEvents rest ((some e, l.raw) :: acc)
    let bad (_ : Unit) := toEvents rest ((none, l.raw) :: acc)
    -- spinlocks other than the mutex' own (object 1 = the mutex; `mtx_` is its first member),
    -- e.g. the ones taken while an exception object is built, are not part of the model
    if l.site.startsWith "sl." && l.obj != 1 then toEvents rest acc else
    match l.site with
    | "sl.lock" | "ag.yield" | "mtx.wait" | "mtx.notify" | "mtx.twait"
    | "cs.pre" | "cs.yield" => toEvents rest acc
    | "inv.lock" => push (.inv t .lock)
    | "inv.trylock" => push (.inv t .tryl)
    | "inv.timed" => push (.inv t .timed)
    | "inv.unlock" => push (.inv t .unlock)
    | "ret" => match resOfCode l.a with
      | some r => push (.ret t r)
      | none => bad ()
    | "sl.acq" => push (.slAcq t)
    | "sl.rel" => push (.slRel t)
    | "cv.enq" => push (.cvEnq t l.a.toNat (l.b != 0))
    | "cv.none" => push (.cvNone t)
    | "cv.woke" => push (.cvWoke t (l.a != 0) (l.b != 0))
    | "mtx.own" => push (.own t l.a.toNat (l.b != 0))
    | "mtx.disown" => push (.disown t)
    | "ag.suspend" => push (.suspend t)
    | "ag.woke" => push (.woke t)
    | "ag.sleep" => push (.sleep t)
    | "ag.timeout" => push (.timeout t)
    | "cs.enter" => push (.csEnter t)
    | "cs.exit" => push (.csExit t)
    | "done" => push (.done t)
    | "cv.pop" =>
      match rest with
      | r :: rest' =>
        if r.tid == t && r.site == "ag.resume" then
          toEvents rest' ((some (.popResume t l.a.toNat r.a.toNat false), l.raw ++ " + " ++ r.raw) :: acc)
        else if r.tid == t && r.site == "ag.resume.dropped" then
          toEvents rest' ((some (.popResume t l.a.toNat r.a.toNat true), l.raw ++ " + " ++ r.raw) :: acc)
        else bad ()
      | [] => bad ()
    | _ => bad ()

def accept (s : St) : List (Option Ev × String) → Nat → Except (Nat × String) St
  | [], _ => .ok s
  | (none, raw) :: _, i => .error (i, "unparsed: " ++ raw)
  | (some e, raw) :: rest, i =>
    match step s e with
    | some s' => accept s' rest (i + 1)
    | none => .error (i, raw)

def pcClass (s : St) (t : Nat) : String :=
  match s.pc t with
  | .idle => "idle"
  | .fin => "fin"
  | .susp false => if s.tok t == 0 then "blocked" else "enabled"
  | _ => "enabled"

/-- Independent monitors on the raw lines (tests, not proofs): everything is recomputed from
    observables only — invocations, reported results, the harness' occupancy counter and the
    unprotected datum written inside the critical sections. -/
structure Mon where
  holder : Nat → Bool := fun _ => false     -- reported success, has not invoked unlock since
  nHold : Nat := 0
  curOp : Nat → String := fun _ => ""
  heldAtInv : Nat → Bool := fun _ => false
  othersAtInv : Nat → Bool := fun _ => false -- some other task was a holder at the invocation
  inCs : Nat := 0
  exits : Nat := 0
  parked : Nat → Bool := fun _ => false
  sawTimeout : Nat → Bool := fun _ => false
  viol : List String := []

def isLockOp (op : String) : Bool := op == "inv.lock" || op == "inv.trylock" || op == "inv.timed"

def monStep (m : Mon) (l : Line) : Mon :=
  let t := l.tid
  match l.site with
  | "inv.lock" | "inv.trylock" | "inv.timed" =>
    { m with curOp := upd m.curOp t l.site, heldAtInv := upd m.heldAtInv t (m.holder t),
             othersAtInv := upd m.othersAtInv t (decide (m.nHold > (if m.holder t then 1 else 0))),
             sawTimeout := upd m.sawTimeout t false }
  | "inv.unlock" =>
    let h := m.holder t
    { m with curOp := upd m.curOp t l.site, heldAtInv := upd m.heldAtInv t h,
             holder := upd m.holder t false, nHold := if h then m.nHold - 1 else m.nHold }
  | "mtx.own" =>
    if l.b != 0 then { m with viol := s!"thread {t} wrote owner_id_ while the mutex was owned (mtx.own kind {l.a})" :: m.viol } else m
  | "cv.woke" => if l.a != 0 then { m with sawTimeout := upd m.sawTimeout t true } else m
  | "ag.suspend" => { m with parked := upd m.parked t true }
  | "ag.woke" => { m with parked := upd m.parked t false }
  | "cs.enter" =>
    let m := { m with inCs := m.inCs + 1 }
    let v1 := if l.a != 1 then [s!"thread {t} entered its critical section while occupancy counter = {l.a} (another task is inside)"] else []
    let v2 := if m.inCs > 1 then [s!"critical sections overlap: {m.inCs} tasks inside after thread {t} entered"] else []
    { m with viol := v1 ++ v2 ++ m.viol }
  | "cs.exit" =>
    let m := { m with inCs := m.inCs - 1, exits := m.exits + 1 }
    if l.b != (m.exits : Int) then
      { m with viol := s!"thread {t}: datum written in the critical section is {l.b} after {m.exits} critical sections (lost or foreign update)" :: m.viol }
    else m
  | "ret" =>
    let op := m.curOp t
    let r := l.a
    let held := m.heldAtInv t
    let v :=
      if op == "inv.lock" then
        (if held && r != 2 then [s!"thread {t}: lock() by the owner reported {r}, expected the deadlock error"] else []) ++
        (if !held && r != 1 then [s!"thread {t}: lock() by a non-owner reported {r}"] else [])
      else if op == "inv.unlock" then
        (if held && r != 1 then [s!"thread {t}: unlock() by the owner reported {r}"] else []) ++
        (if !held && r != 3 then [s!"thread {t}: unlock() by a non-owner reported {r}, expected lock_error"] else [])
      else if op == "inv.trylock" || op == "inv.timed" then
        (if r != 0 && r != 1 then [s!"thread {t}: {op} reported {r}"] else []) ++
        (if held && r == 1 then [s!"thread {t}: {op} by the owner returned true"] else [])
      else []
    let m := { m with viol := v ++ m.viol }
    if isLockOp op && r == 1 && !held then
      let m := { m with holder := upd m.holder t true, nHold := m.nHold + 1 }
      if m.nHold > 1 then
        { m with viol := s!"thread {t}: {op} reported success while another task holds the mutex ({m.nHold} holders)" :: m.viol }
      else m
    else m
  | _ => m

def monitors (c : Case) (ls : List Line) (n : Nat) : List String :=
  let m := ls.foldl monStep {}
  let endv :=
    if c.status == "deadlock" then
      (List.range n).filterMap (fun t =>
        if m.parked t && m.curOp t == "inv.lock" && m.nHold == 0 then
          some s!"thread {t} is blocked in lock() at quiescence although no task holds the mutex (lost unlock)"
        else if m.parked t && m.curOp t == "inv.lock" && m.heldAtInv t then
          some s!"thread {t}: lock() by the owner blocked instead of reporting the deadlock error"
        else none)
    else []
  let stv := if c.status == "ok" || c.status == "deadlock" then [] else [s!"run ended with status '{c.status}'"]
  m.viol.reverse ++ endv ++ stv

def runMutex (c : Case) : String :=
  let n := c.threads.length
  let parsed := c.lines.map parseLine
  if parsed.any Option.isNone then s!"case {c.id} reject 0 malformed-line" else
  let ls := parsed.filterMap id
  let evs := toEvents ls []
  let mon := monitors c ls n
  let monS := if mon.isEmpty then "monitors ok" else "monitors FAIL: " ++ " | ".intercalate mon
  match accept (Mtx.init n) evs 0 with
  | .error (i, raw) => s!"case {c.id} reject {i} [{raw}] ; {monS}"
  | .ok s =>
    let classes := (List.range n).map (pcClass s)
    let fin :=
      if c.status == "ok" then
        if classes.all (· == "fin") then "final ok" else "final MISMATCH: run ended but model threads " ++ toString classes
      else if c.status == "deadlock" then
        if classes.all (fun x => x == "fin" || x == "blocked" || x == "idle") && s.lock.isNone
        then s!"final stuck blocked={(classes.filter (· == "blocked")).length} owner={s.owner}"
        else "final MISMATCH: implementation is quiescent but model threads " ++ toString classes
      else s!"final status {c.status}"
    s!"case {c.id} accept {evs.length} ; {fin} ; {monS}"

/-! ## recursive mutex and bare spinlock -/

def acceptG {σ ε : Type} (step : σ → ε → Option σ) (s : σ) : List (Option ε × String) → Nat → Except (Nat × String) σ
  | [], _ => .ok s
  | (none, raw) :: _, i => .error (i, "unparsed: " ++ raw)
  | (some e, raw) :: rest, i =>
    match step s e with
    | some s' => acceptG step s' rest (i + 1)
    | none => .error (i, raw)

/-- Recursive mutex: object 1 is the mutex, object 2 its internal spinlock (first use).
    `rmtx.free` is immediately followed by the `sl.rel` of the same thread (one atomic block)
    and merged with it.  Dropped as stutter: `sl.lock`, `sl.trylock`, `ag.yield`, the points
    `rmtx.got`, `rmtx.clr`, `cs.pre`, `cs.yield`. -/
partial def toEventsRec : List Line → List (Option Rec.Ev × String) → List (Option Rec.Ev × String)
  | [], acc => acc.reverse
  | l :: rest, acc =>
    let t := l.tid
    let push (e : Rec.Ev) := toEventsRec rest ((some e, l.raw) :: acc)
    let bad (_ : Unit) := toEventsRec rest ((none, l.raw) :: acc)
    if l.site.startsWith "sl." && l.obj != 2 then toEventsRec rest acc else
    match l.site with
    | "sl.lock" | "sl.trylock" | "ag.yield" | "rmtx.got" | "rmtx.clr" | "cs.pre" | "cs.yield" => toEventsRec rest acc
    | "inv.rlock" => push (.inv t .rlock)
    | "inv.rtry" => push (.inv t .rtry)
    | "inv.runlock" => push (.inv t .runlock)
    | "ret" => push (.ret t (l.a != 0))
    | "rmtx.rec" => push (.reent t l.a.toNat)
    | "sl.acq" => push (.slAcq t)
    | "sl.try" => push (.slTry t (l.a != 0))
    | "rmtx.own" => push (.own t l.a.toNat)
    | "rmtx.zero" => push (.zero t)
    | "rmtx.dec" => push (.dec t l.a.toNat)
    | "rmtx.free" =>
      match rest with
      | r :: rest' =>
        if r.tid == t && r.site == "sl.rel" && r.obj == 2 then
          toEventsRec rest' ((some (.free t), l.raw ++ " + " ++ r.raw) :: acc)
        else bad ()
      | [] => bad ()
    | "cs.enter" => push (.csEnter t)
    | "cs.exit" => push (.csExit t)
    | "done" => push (.done t)
    | _ => bad ()

partial def toEventsSpin : List Line → List (Option Spin.Ev × String) → List (Option Spin.Ev × String)
  | [], acc => acc.reverse
  | l :: rest, acc =>
    let t := l.tid
    let push (e : Spin.Ev) := toEventsSpin rest ((some e, l.raw) :: acc)
    if l.site.startsWith "sl." && l.obj != 1 then toEventsSpin rest acc else
    match l.site with
    | "sl.lock" | "sl.trylock" | "ag.yield" | "cs.pre" | "cs.yield" => toEventsSpin rest acc
    | "inv.slock" => push (.inv t .slock)
    | "inv.stry" => push (.inv t .stry)
    | "inv.sunlock" => push (.inv t .sunlock)
    | "ret" => push (.ret t (l.a != 0))
    | "sl.acq" => push (.slAcq t)
    | "sl.try" => push (.slTry t (l.a != 0))
    | "sl.rel" => push (.slRel t)
    | "cs.enter" => push (.csEnter t)
    | "cs.exit" => push (.csExit t)
    | "done" => push (.done t)
    | _ => toEventsSpin rest ((none, l.raw) :: acc)

/-- Monitors for the recursive mutex and the spinlock, from observables only: per-thread depth
    = successful lock returns − unlock invocations; at most one thread with depth > 0; the
    harness' occupancy counter and datum; the count payloads of the hooks. -/
structure MonR where
  depth : Nat → Nat := fun _ => 0
  nHold : Nat := 0
  curOp : Nat → String := fun _ => ""
  inCs : Nat := 0
  exits : Nat := 0
  viol : List String := []

def monStepR (m : MonR) (l : Line) : MonR :=
  let t := l.tid
  match l.site with
  | "inv.rlock" | "inv.rtry" | "inv.slock" | "inv.stry" => { m with curOp := upd m.curOp t l.site }
  | "inv.runlock" | "inv.sunlock" =>
    let d := m.depth t
    let m := { m with curOp := upd m.curOp t l.site }
    if d == 0 then { m with viol := s!"thread {t} invoked unlock without holding (harness error)" :: m.viol }
    else { m with depth := upd m.depth t (d - 1), nHold := if d == 1 then m.nHold - 1 else m.nHold }
  | "rmtx.rec" =>
    if l.a != (m.depth t : Int) + 1 then
      { m with viol := s!"thread {t}: recursion_count {l.a} after re-entry, but its locks - unlocks = {m.depth t}" :: m.viol }
    else m
  | "rmtx.dec" =>
    if l.a != (m.depth t : Int) then
      { m with viol := s!"thread {t}: recursion_count {l.a} after unlock, but its locks - unlocks = {m.depth t}" :: m.viol }
    else m
  | "rmtx.zero" =>
    if m.depth t != 0 then
      { m with viol := s!"thread {t}: recursion_count reached 0 although its locks - unlocks = {m.depth t}" :: m.viol }
    else m
  | "cs.enter" =>
    let m := { m with inCs := m.inCs + 1 }
    let v1 := if l.a != 1 then [s!"thread {t} entered its critical section while occupancy counter = {l.a} (another thread is inside)"] else []
    let v2 := if m.inCs > 1 then [s!"critical sections overlap: {m.inCs} threads inside after thread {t} entered"] else []
    { m with viol := v1 ++ v2 ++ m.viol }
  | "cs.exit" =>
    let m := { m with inCs := m.inCs - 1, exits := m.exits + 1 }
    if l.b != (m.exits : Int) then
      { m with viol := s!"thread {t}: datum written in the critical section is {l.b} after {m.exits} critical sections (lost or foreign update)" :: m.viol }
    else m
  | "ret" =>
    let op := m.curOp t
    if (op == "inv.rlock" || op == "inv.slock") && l.a != 1 then
      { m with viol := s!"thread {t}: {op} reported {l.a}" :: m.viol }
    else if (op == "inv.rlock" || op == "inv.rtry" || op == "inv.slock" || op == "inv.stry") && l.a == 1 then
      let d := m.depth t
      let m := { m with depth := upd m.depth t (d + 1), nHold := if d == 0 then m.nHold + 1 else m.nHold }
      if m.nHold > 1 then
        { m with viol := s!"thread {t}: {op} reported success while another thread holds the lock ({m.nHold} holders)" :: m.viol }
      else m
    else m
  | _ => m

def monitorsR (c : Case) (ls : List Line) : List String :=
  let m := ls.foldl monStepR {}
  let endv :=
    if c.status == "livelock" && m.nHold == 0 then
      ["threads spin on the lock for ever although no thread holds it (lost unlock)"]
    else []
  let stv := if c.status == "ok" || c.status == "livelock" then [] else [s!"run ended with status '{c.status}'"]
  m.viol.reverse ++ endv ++ stv

def finalG (c : Case) (classes : List String) (extra : String) : String :=
  if c.status == "ok" then
    if classes.all (· == "fin") then "final ok" else "final MISMATCH: run ended but model threads " ++ toString classes
  else if c.status == "livelock" then
    if classes.all (fun x => x == "fin" || x == "waiting" || x == "idle") && classes.any (· == "waiting")
    then s!"final stuck waiting={(classes.filter (· == "waiting")).length} {extra}"
    else "final MISMATCH: implementation only spins but model threads " ++ toString classes
  else s!"final status {c.status}"

def runRec (c : Case) : String :=
  let n := c.threads.length
  let parsed := c.lines.map parseLine
  if parsed.any Option.isNone then s!"case {c.id} reject 0 malformed-line" else
  let ls := parsed.filterMap id
  let evs := toEventsRec ls []
  let mon := monitorsR c ls
  let monS := if mon.isEmpty then "monitors ok" else "monitors FAIL: " ++ " | ".intercalate mon
  match acceptG Rec.step (Rec.init n) evs 0 with
  | .error (i, raw) => s!"case {c.id} reject {i} [{raw}] ; {monS}"
  | .ok s =>
    let cls (t : Nat) : String :=
      match s.pc t with
      | .idle => "idle"
      | .fin => "fin"
      | .want .rlock => if s.ctx != some t && s.v.isSome then "waiting" else "enabled"
      | _ => "enabled"
    s!"case {c.id} accept {evs.length} ; {finalG c ((List.range n).map cls) s!"ctx={s.ctx} count={s.cnt}"} ; {monS}"

def runSpin (c : Case) : String :=
  let n := c.threads.length
  let parsed := c.lines.map parseLine
  if parsed.any Option.isNone then s!"case {c.id} reject 0 malformed-line" else
  let ls := parsed.filterMap id
  let evs := toEventsSpin ls []
  let mon := monitorsR c ls
  let monS := if mon.isEmpty then "monitors ok" else "monitors FAIL: " ++ " | ".intercalate mon
  match acceptG Spin.step (Spin.init n) evs 0 with
  | .error (i, raw) => s!"case {c.id} reject {i} [{raw}] ; {monS}"
  | .ok s =>
    let cls (t : Nat) : String :=
      match s.pc t with
      | .idle => "idle"
      | .fin => "fin"
      | .want .slock => if s.v.isSome then "waiting" else "enabled"
      | _ => "enabled"
    s!"case {c.id} accept {evs.length} ; {finalG c ((List.range n).map cls) s!"v={s.v}"} ; {monS}"

def runCase (c : Case) : String :=
  match c.get "kind" "mutex" with
  | "mutex" | "timed" => runMutex c
  | "recursive" => runRec c
  | "spin" => runSpin c
  | k => s!"case {c.id} reject 0 unknown-kind-{k}"

end Driver.MtxDrv
