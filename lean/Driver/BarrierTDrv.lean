import PikaVerif.Model.BarrierT
import Driver.BarrierDrv
/-! Driver for the fine barrier model (C09 follow-up C09t, model name `barriert`): parser for the
    fine events (timed busy-wait phase of `wait`, the completion step as three separate steps),
    run of the fine acceptor, run of the *coarse* acceptor on the projected log (the refinement
    theorem `C09T_refines` checked on every real log), the monitors of `BarrierDrv` plus monitors
    for the new parts. -/
namespace Driver.BarrierTDrv
open PikaVerif PikaVerif.Barrier Driver

abbrev FEv := PikaVerif.BarrierT.Ev
abbrev FSt := PikaVerif.BarrierT.St

partial def toEvents : List Line → List (Option FEv × String) → List (Option FEv × String)
  | [], acc => acc.reverse
  | l :: rest, acc =>
    let t := l.tid
    let push (e : FEv) := toEvents rest ((some e, l.raw) :: acc)
    let bad := fun (_ : Unit) => toEvents rest ((none, l.raw) :: acc)
    let merge (f : Line → Option FEv) :=
      match rest with
      | r :: rest' =>
        if r.tid == t then
          match f r with
          | some e => toEvents rest' ((some e, l.raw ++ " + " ++ r.raw) :: acc)
          | none => bad ()
        else bad ()
      | [] => bad ()
    match l.site with
    | "ag.yield" => toEvents rest acc
    | "inv.arrive" => push (.c (.inv t (.arrive l.a.toNat)))
    | "inv.wait" => push (.c (.inv t .wait))
    | "inv.aw" => push (.c (.inv t .aw))
    | "inv.drop" => push (.c (.inv t .drop))
    | "inv.waitT" => push (.invT t .wait)
    | "inv.awT" => push (.invT t .aw)
    | "ret" => push (.c (.ret t))
    | "done" => push (.c (.done t))
    | "bar.enter" => merge (fun r => if r.site == "bar.arrive" then some (.c (.load t r.a.toNat r.b.toNat)) else none)
    | "bar.start" => push (.c (.start t l.a.toNat))
    | "bar.try" => merge (fun r =>
        if r.site == "bar.half" && r.a == l.a && r.b == l.b then some (.c (.cas t l.a.toNat l.b.toNat .half))
        else if r.site == "bar.up" && r.a == l.a && r.b == l.b then some (.c (.cas t l.a.toNat l.b.toNat .up))
        else if r.site == "bar.seen" && r.a == l.a && r.b == l.b then some (.c (.cas t l.a.toNat l.b.toNat .seen))
        else if r.site == "bar.miss" && r.a == l.a then some (.c (.cas t l.a.toNat l.b.toNat (.miss r.b.toNat)))
        else none)
    | "bar.try2" => merge (fun r =>
        if r.site == "bar.up" && r.a == l.a && r.b == l.b then some (.c (.cas2 t l.a.toNat l.b.toNat .up))
        else if r.site == "bar.miss" && r.a == l.a then some (.c (.cas2 t l.a.toNat l.b.toNat (.miss r.b.toNat)))
        else none)
    | "bar.last" => push (.c (.last t l.a.toNat l.b.toNat))
    | "bar.compl" => push (.compl t)
    | "bar.adjld" => merge (fun r =>
        if r.site == "bar.adjv" && r.a ≥ 0 && r.b ≥ 0 then some (.adjLoad t r.a.toNat r.b.toNat) else none)
    | "bar.adjst" => push (.adjStore t)
    | "bar.publish" => merge (fun r => if r.site == "bar.phase" then some (.c (.publish t r.a.toNat r.b.toNat)) else none)
    | "bar.block" => push (.block t (l.b != 0))
    | "bar.poll" =>
      match rest with
      | r :: r2 :: rest' =>
        if r.tid == t && r.site == "bar.polled" && r.a == l.a then
          if r2.tid == t && r2.site == "bar.spinok" then
            toEvents rest' ((some (.spinok t r.a.toNat r.b.toNat), l.raw ++ " + " ++ r.raw ++ " + " ++ r2.raw) :: acc)
          else toEvents (r2 :: rest') ((some (.c (.poll t r.a.toNat r.b.toNat)), l.raw ++ " + " ++ r.raw) :: acc)
        else bad ()
      | _ => merge (fun r =>
          if r.site == "bar.polled" && r.a == l.a then some (.c (.poll t r.a.toNat r.b.toNat)) else none)
    | "bar.drop" => merge (fun r => if r.site == "bar.adj" then some (.c (.adj t)) else none)
    | _ => bad ()

def accept (s : FSt) : List (Option FEv × String) → Nat → Except (Nat × String) FSt
  | [], _ => .ok s
  | (none, raw) :: _, i => .error (i, "unparsed: " ++ raw)
  | (some e, raw) :: rest, i =>
    match BarrierT.step s e with
    | some s' => accept s' rest (i + 1)
    | none => .error (i, raw)

/-- Monitors for the parts added by the follow-up (observables only; property failures only —
    deviations of the step structure, e.g. an untimed wait that polls before `bar.block`, are left
    to the acceptor). -/
structure MonT where
  expected : Int
  drops : Int := 0
  loaded : Bool := false        -- between `bar.adjv` and the phase store
  timedOp : Nat → Bool := fun _ => false
  waiting : Nat → Bool := fun _ => false    -- current operation is wait / arrive_and_wait
  blocked : Nat → Bool := fun _ => false    -- `bar.block` seen in the current operation
  sawFlip : Nat → Bool := fun _ => false    -- last poll of the operation saw a different byte
  viol : List String := []

def MonT.v (m : MonT) (msg : String) : MonT := { m with viol := msg :: m.viol }

def monTStep (m : MonT) (l : Line) : MonT :=
  let t := l.tid
  let begin (timed waiting : Bool) : MonT :=
    { m with timedOp := upd m.timedOp t timed, waiting := upd m.waiting t waiting,
             blocked := upd m.blocked t false, sawFlip := upd m.sawFlip t false }
  match l.site with
  | "inv.wait" | "inv.aw" => begin false true
  | "inv.waitT" | "inv.awT" => begin true true
  | "inv.arrive" | "inv.drop" => begin false false
  | "bar.adj" =>
    let m := { m with drops := m.drops + 1 }
    if m.loaded then
      m.v s!"thread {t}: fetch_sub of arrive_and_drop fell between the load and the store(0) of expected_adjustment (the drop is lost)"
    else m
  | "bar.adjv" =>
    let m := if l.a != m.drops then
      m.v s!"thread {t}: completion step loaded adjustment {l.a}, {m.drops} drop(s) in this phase" else m
    let m := if l.b != m.expected - m.drops then
      m.v s!"thread {t}: expected after the adjustment is {l.b}, should be {m.expected - m.drops}" else m
    { m with loaded := true }
  | "bar.adjst" => { m with loaded := false }    -- logged right before the store in the same atomic block
  | "bar.phase" => { m with expected := l.b, drops := 0, loaded := false }
  | "bar.block" => { m with blocked := upd m.blocked t true }
  | "bar.polled" => { m with sawFlip := upd m.sawFlip t (l.a != l.b) }
  | "bar.spinok" =>
    if !(m.sawFlip t) then m.v s!"thread {t}: busy-wait phase ended although its last poll saw the phase unchanged" else m
  | "ret" =>
    if m.waiting t && !(m.sawFlip t) then
      m.v s!"thread {t}: returned from wait / arrive_and_wait without a poll that saw the phase flip"
    else m
  | _ => m

def monitorsT (c : Case) (ls : List Line) : List String :=
  (ls.foldl monTStep { expected := c.getInt "n" }).viol.reverse

def pcClass (s : FSt) (t : Nat) : String :=
  match s.c.pc t with
  | .idle => "idle"
  | .fin => "fin"
  | .polling => if s.c.phase == s.c.tok t then "waiting" else "enabled"
  | _ => "enabled"

def runCase (c : Case) : String :=
  let n := c.threads.length
  let parsed := c.lines.map parseLine
  if parsed.any Option.isNone then s!"case {c.id} reject 0 malformed-line" else
  let ls := parsed.filterMap id
  let evs := toEvents ls []
  let mon := BarrierDrv.monitors c ls ++ monitorsT c ls
  let monS := if mon.isEmpty then "monitors ok" else "monitors FAIL: " ++ " | ".intercalate mon
  match accept (BarrierT.init n (c.getNat "n")) evs 0 with
  | .error (i, raw) => s!"case {c.id} reject {i} [{raw}] ; {monS}"
  | .ok s =>
    -- the coarse acceptor on the projected log must end in the abstraction of the fine state
    let cl := BarrierT.projLog (evs.filterMap (·.1))
    match runLog Barrier.step (Barrier.init n (c.getNat "n")) cl with
    | none => s!"case {c.id} reject {evs.length} [projected log rejected by the coarse model] ; {monS}"
    | some cs =>
      let a := BarrierT.abs s
      if !(cs.expected == a.expected && cs.adj == a.adj && cs.phase == a.phase && cs.ph == a.ph &&
           cs.compls == a.compls && cs.wins == a.wins && cs.count == a.count && s.lost == 0) then
        s!"case {c.id} reject {evs.length} [coarse final state differs from the abstraction of the fine one, or a drop was lost] ; {monS}"
      else
      let classes := (List.range n).map (pcClass s)
      let fin :=
        if c.status == "ok" then
          if classes.all (· == "fin") then s!"final ok phases={s.c.ph} expected={s.c.expected}"
          else "final MISMATCH: run ended but model threads " ++ toString classes
        else s!"final status {c.status} model threads {classes}"
      s!"case {c.id} accept {evs.length} ; {fin} ; {monS}"

end Driver.BarrierTDrv
