import PikaVerif.Model.Snd
import PikaVerif.Model.SndRef
import Driver.Util
/-!
Driver for the sequential sender model (C03, engine E0): parses the term of each case, runs the
operational model and the denotation, and compares with what the harness `harness/e0/snd.cpp`
observed on the real adaptors.  Independent monitors recompute the property from the harness
lines alone.
-/
namespace Driver.SndDrv
open PikaVerif PikaVerif.Snd Driver

abbrev P := List Char

def pIdent (p : P) : String × P :=
  let a := p.takeWhile Char.isAlpha
  (String.ofList a, p.drop a.length)

def pNat (p : P) : Option (Nat × P) :=
  let d := p.takeWhile Char.isDigit
  if d.isEmpty then none else some ((String.ofList d).toNat!, p.drop d.length)

def pInt (p : P) : Option (Int × P) :=
  match p with
  | '-' :: r => (pNat r).map (fun (n, r') => (-(n : Int), r'))
  | _ => (pNat p).map (fun (n, r') => ((n : Int), r'))

/-- possibly empty, ':'-separated -/
partial def pInts (p : P) : List Int × P :=
  match pInt p with
  | none => ([], p)
  | some (i, r) =>
    match r with
    | ':' :: r' => let (is, r'') := pInts r'; (i :: is, r'')
    | _ => ([i], r)

def expect (c : Char) (p : P) : Option P :=
  match p with
  | d :: r => if c == d then some r else none
  | [] => none

def pFn (p : P) : Option (Fn × P) :=
  let (name, r) := pIdent p
  let (args, r) := match r with
    | ':' :: r' => pInts r'
    | _ => ([], r)
  match name, args with
  | "add", [k] => some (.add k, r)
  | "rev", [] => some (.rev, r)
  | "sum", [] => some (.sum, r)
  | "dup", [] => some (.dup, r)
  | "id", [] => some (.id, r)
  | "thr", [e] => some (.thr e, r)
  | "throdd", [e] => some (.thrOdd e, r)
  | "const", vs => some (.const vs, r)
  | _, _ => none

def pSch (p : P) : Option (Sch × P) :=
  let (name, r) := pIdent p
  match name with
  | "v" => some (.v, r)
  | "s" => some (.s, r)
  | "p" => some (.p, r)
  | "e" => do
    let r ← expect ':' r
    let (c, r) ← pInt r
    pure (.e c, r)
  | _ => none

mutual
partial def pTerm (p : P) : Option (Term × P) := do
  let (op, r) := pIdent p
  let r ← expect '(' r
  let (t, r) ← (match op with
    | "just" => let (vs, r) := pInts r; some (Term.just vs, r)
    | "err" => (pInt r).map (fun (e, r) => (Term.err e, r))
    | "stop" => some (Term.stop, r)
    | "arg" => some (Term.arg, r)
    | "then" => do
      let (f, r) ← pFn r
      let r ← expect ',' r
      let (t, r) ← pTerm r
      pure (Term.thn f t, r)
    | "lv" | "le" => do
      let (f, r) ← pFn r
      let r ← expect ',' r
      let (t, r) ← pTerm r
      let r ← expect ',' r
      let (b, r) ← pTerm r
      pure (if op == "lv" then Term.lv f t b else Term.le f t b, r)
    | "dv" => (pTerm r).map (fun (t, r) => (Term.dv t, r))
    | "un" => (pTerm r).map (fun (t, r) => (Term.un t, r))
    | "sp" => (pTerm r).map (fun (t, r) => (Term.sp t, r))
    | "es" => (pTerm r).map (fun (t, r) => (Term.es t, r))
    | "rs" => (pTerm r).map (fun (t, r) => (Term.rs t, r))
    | "dos" => (pTerm r).map (fun (t, r) => (Term.dos t, r))
    | "sd" => (pSch r).map (fun (sc, r) => (Term.sd sc, r))
    | "bulk" => do
      let (n, r) ← pNat r
      if n > 4 then none
      let r ← expect ',' r
      let (f, r) ← pFn r
      let r ← expect ',' r
      let (t, r) ← pTerm r
      pure (Term.bulk n f t, r)
    | "co" => do
      let (sc, r) ← pSch r
      let r ← expect ',' r
      let (t, r) ← pTerm r
      pure (Term.co sc t, r)
    | "tj" => do
      let (sc, r) ← pSch r
      let r ← expect ',' r
      let (vs, r) := pInts r
      pure (Term.tj sc vs, r)
    | "wa" => do
      let (ts, r) ← pTerms r
      match ts with
      | c :: cs => if cs.length ≤ 3 then pure (Term.wa c cs, r) else none
      | [] => none
    | "wv" => do
      let (ts, r) ← pTerms r
      pure (Term.wv ts, r)
    | "st" => do
      let (i, r) ← pNat r
      if i > 1 then none
      let r ← expect ',' r
      let (t, r) ← pTerm r
      pure (Term.st i t, r)
    | _ => none)
  let r ← expect ')' r
  pure (t, r)
/-- comma-separated terms up to (not including) the closing parenthesis; may be empty -/
partial def pTerms (p : P) : Option (List Term × P) :=
  match p with
  | ')' :: _ => some ([], p)
  | _ => do
    let (t, r) ← pTerm p
    match r with
    | ',' :: r' => do
      let (ts, r'') ← pTerms r'
      pure (t :: ts, r'')
    | _ => pure ([t], r)
end

def parseTerm (s : String) : Option Term :=
  match pTerm s.toList with
  | some (t, []) => some t
  | _ => none

def showInts (vs : List Int) : String := String.join (vs.map (fun v => " " ++ toString v))

def showSig : Sig → String
  | .value vs => "value" ++ showInts vs
  | .error e => "error " ++ toString e
  | .stopped => "stopped"

def parseConsumer : String → Option Consumer
  | "recv" => some .recv
  | "detached" => some .detached
  | "sync" => some .sync
  | _ => none

/-- The lines (without ledger) and the end status the model predicts. -/
def expected (cfg : Cfg) (c : Consumer) (t : Term) : List String × Bool :=
  let o := run cfg t
  if o.aborted then (o.log.map (fun s => "sig " ++ showSig s), true)
  else
    let sigs := o.log.map (fun s => "sig " ++ showSig s)
    match c, o.log with
    | .recv, l => (sigs ++ l.map (fun s => "recv " ++ showSig s) ++ ["count " ++ toString l.length], false)
    | .detached, [s] =>
      (match consume .detached s with
       | some _ => (sigs ++ ["count 1"], false)
       | none => (sigs, true))
    | .sync, [s] =>
      (match consume .sync s with
       | some _ => (sigs ++ ["ret " ++ showSig s], false)
       | none => (sigs, true))
    | _, _ => (sigs ++ ["model: consumer without exactly one signal"], false)

def kvOf (l : String) (k : String) : Option String :=
  (l.splitOn " ").findSome? (fun w => match w.splitOn "=" with
    | [a, b] => if a == k then some b else none
    | _ => none)

/-- Independent monitors: from the harness lines only. -/
def monitors (c : Case) : List String :=
  let sigs := c.lines.filter (·.startsWith "sig ")
  let recvs := c.lines.filter (fun l => l.startsWith "recv " || l.startsWith "ret ")
  let crashed := c.status.startsWith "crash"
  let consumer := c.get "consumer" "recv"
  let byDesign := crashed && sigs.length == 1 && recvs.isEmpty &&
    ((consumer == "detached" && (sigs.headD "").startsWith "sig error") ||
     (consumer == "sync" && sigs.headD "" == "sig stopped"))
  let v1 := if crashed && !byDesign then
      [s!"process terminated ({c.status}) after {sigs.length} signal(s) without a by-design reason"] else []
  let v2 := if !crashed && sigs.length != 1 then
      [s!"{sigs.length} completion signals left the pipeline (expected exactly 1)"] else []
  let v3 := if !crashed && consumer != "detached" then
      (match sigs, recvs with
       | [s], [r] => if (s.drop 4).toString == ((r.splitOn " ").drop 1 |> " ".intercalate) then []
                     else [s!"consumer observed '{r}' but the pipeline signalled '{s}'"]
       | _, _ => [s!"consumer observed {recvs.length} completion(s)"])
    else []
  let v4 := if !crashed then
      (match c.lines.find? (·.startsWith "ledger ") with
       | none => ["no ledger line"]
       | some l =>
         if kvOf l "live" != some "0" || kvOf l "bad" != some "0" || kvOf l "ctor" != kvOf l "dtor" then
           [s!"payload ledger not balanced: {l}"] else [])
    else []
  let v5 := if !crashed && consumer == "recv" && !c.lines.contains "count 1" then
      ["terminal receiver call count is not 1"] else []
  let v6 := if c.status != "ok" && !crashed then [s!"run ended with status '{c.status}'"] else []
  v1 ++ v2 ++ v3 ++ v4 ++ v5 ++ v6

/-- C03s monitors (independent of the model): the `xl` lines of the harness.
    * every exception observed at a delivery point (`probe`, `recv`, `after-release`, `ret`, the argument of a
      let_error callable, the error kept for a let_error body) is a live object of the exception ledger and is
      the object that was thrown (same address / origin / code / message);
    * the exception the consumer sees is the one that left the pipeline (same origin), and its code is the code
      of the `sig error` line;
    * at the end every exception object has been destroyed exactly once (`xlive=0`, `xctor=xdtor`, `xbad=0`);
    * nothing reached the probe or the terminal receiver after the terminal receiver destroyed the operation state;
    * no callable was invoked after its state had been moved away. -/
def xlMonitors (c : Case) : List String :=
  let xl := c.lines.filter (·.startsWith "xl ")
  let crashed := c.status.startsWith "crash"
  let excs := xl.filter (·.startsWith "xl exc ")
  let word (l : String) (i : Nat) : String := ((l.splitOn " ")[i]?).getD ""
  let x1 := excs.filterMap (fun l =>
    if word l 3 != "alive" || kvOf l "same" != some "1" then
      some s!"exception at '{word l 2}' is {word l 3} (same={(kvOf l "same").getD "?"}): not the live thrown object [{l}]"
    else none)
  let originAt (w : String) : Option String := (excs.find? (fun l => word l 2 == w)).bind (kvOf · "origin")
  let x2 := match originAt "probe" with
    | none => []
    | some o =>
      (["recv", "after-release", "ret"].filterMap (fun w => match originAt w with
        | some o' => if o' == o then none else some s!"consumer saw exception origin {o'} at '{w}' but origin {o} left the pipeline"
        | none => none))
  let x3 := match excs.find? (fun l => word l 2 == "probe"), c.lines.find? (·.startsWith "sig error ") with
    | some l, some sg => if kvOf l "code" == some ((sg.drop 10).toString) then [] else [s!"exception ledger code differs from the signalled one: [{l}] vs [{sg}]"]
    | _, _ => []
  let x4 := if crashed then [] else
    match xl.find? (·.startsWith "xl end ") with
    | none => if xl.isEmpty then [] else ["no 'xl end' line"]
    | some l =>
      (if kvOf l "xlive" != some "0" || kvOf l "xbad" != some "0" || kvOf l "xctor" != kvOf l "xdtor" then
        [s!"exception ledger not balanced (every exception object must be destroyed exactly once): {l}"] else []) ++
      (if kvOf l "late" != some "0" then [s!"a signal was delivered after the terminal receiver destroyed the operation state: {l}"] else [])
  let x5 := (xl.filter (·.startsWith "xl late")).map (fun l => s!"delivery after release: {l}")
  let x6 := (xl.filter (·.startsWith "xl callable-hollow")).map (fun l => s!"callable invoked after its state was moved away: {l}")
  x1 ++ x2 ++ x3 ++ x4 ++ x5 ++ x6

/-- Reference-interpreter monitor: the signal that left the pipeline must be the denotation of
    the term (the specification), whatever the operational model says. -/
def denoteMonitor (c : Case) : List String :=
  match parseTerm (c.get "term") with
  | some t =>
    match c.lines.filter (·.startsWith "sig ") with
    | [l] => if l == "sig " ++ showSig (denote t []) then []
             else [s!"pipeline signalled '{l}' but the term denotes '{showSig (denote t [])}'"]
    | _ => []
  | none => []

/-- C03s: the term as a term of the payload-location model `SndRef` (partial inverse of `SndRef.emb`) -/
def refOf : Term → Option SndRef.RT
  | .just vs => some (.leaf (.value vs))
  | .err e => some (.leaf (.error e))
  | .stop => some (.leaf .stopped)
  | .thn f p => (refOf p).map (.thn f)
  | .rs p => (refOf p).map .rs
  | .dos p => (refOf p).map .dos
  | .sp p => (refOf p).map .sp
  | .wa a [b] => match refOf a, refOf b with
    | some x, some y => some (.wa2 x y)
    | _, _ => none
  | _ => none

/-- C03s: for a statically typed case whose term lies in the fragment of `SndRef`, the payload-location model
    must predict the signal the harness saw, exactly one delivery and no read of a destroyed payload (the
    harness' `xl exc` / ledger lines are the implementation side of `uaf = false`: see `xlMonitors`). -/
def refCheck (c : Case) (t : Term) : Option String :=
  if c.get "static" "0" == "0" then none else
  match refOf t with
  | none => none
  | some rt =>
    let o := SndRef.run SndRef.Var.pinned rt
    let sigs := c.lines.filter (·.startsWith "sig ")
    if o.uaf then some "SndRef: the payload-location model reads a destroyed payload"
    else if o.log.map (fun s => "sig " ++ showSig s) != sigs then
      some s!"SndRef: model delivers {o.log.map showSig} but the harness saw {sigs}"
    else none

def runCase (c : Case) : String :=
  -- a static=1 case whose term is not a shape of the pure catalogue is not run by the pure binary
  if c.lines.contains "xl nomatch" || c.lines.contains "xl nostatic" then
    s!"case {c.id} accept 0 ; final nomatch ; monitors ok" else
  let mon := monitors c ++ denoteMonitor c ++ xlMonitors c
  let monS := if mon.isEmpty then "monitors ok" else "monitors FAIL: " ++ " | ".intercalate mon
  let cfg := if c.get "cfg" "fixed" == "pinned" then Cfg.pinned else Cfg.fixed
  match parseTerm (c.get "term"), parseConsumer (c.get "consumer" "recv") with
  | some t, some cons =>
    let (exp, expCrash) := expected cfg cons t
    let got := c.lines.filter (fun l => !(l.startsWith "ledger ") && !(l.startsWith "xl "))
    let crashed := c.status.startsWith "crash"
    -- the operational model and the denotation must agree as well (redundant with the theorem)
    let o := run cfg t
    let selfOk := o.aborted || (o.log == [denote t []] && !o.uaf)
    if !selfOk then s!"case {c.id} reject 0 [model-internal: exec {o.log.map showSig} vs denote {showSig (denote t [])}] ; {monS}"
    else if let some msg := refCheck c t then s!"case {c.id} reject 0 [{msg}] ; {monS}"
    else if got == exp && crashed == expCrash && (crashed || c.status == "ok") then
      s!"case {c.id} accept {exp.length} ; final {if crashed then "terminated-as-modelled" else "ok"} ; {monS}"
    else
      let i := (List.range (max exp.length got.length)).find? (fun i => exp[i]? != got[i]?) |>.getD exp.length
      s!"case {c.id} reject {i} [impl: {got} end {c.status} ; model: {exp} end {if expCrash then "crash" else "ok"}] ; {monS}"
  | _, _ => s!"case {c.id} reject 0 [unparsed term or consumer: {c.get "term"}] ; {monS}"

end Driver.SndDrv
