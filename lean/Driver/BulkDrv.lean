import PikaVerif.Model.BulkPlan
import PikaVerif.Model.Bulk
import Driver.Util
import Driver.BulkCDrv
/-!
Driver for the bulk arithmetic / live runs (C11).

* `kind=arith`: differential execution (E0) of the real `get_chunk_size`, `init_queue`,
  `do_work_chunk` against the generated Lean functions.
* `kind=live`: the real `bulk` on the live runtime.  The plan the real code computed
  (`bulk.plan`, `bulk.initq` hook events) is compared with the generated functions; the
  chunk events must pop every planned chunk exactly once; independent monitors recompute the
  property from the observable summary (`live.*` lines).
-/
namespace Driver.BulkDrv
open PikaVerif PikaVerif.Gen.BulkArith PikaVerif.BulkPlan Driver

def shapeOf (code : Int) : CTy :=
  if code == 0 then CTy.i32 else if code == 1 then CTy.u32 else if code == 2 then CTy.i64 else CTy.u64

def shapeName (code : Int) : String :=
  if code == 0 then "int" else if code == 1 then "unsigned" else if code == 2 then "long" else "unsigned long"

/-- `op a b c ; op …` of the `thread 0:` line. -/
def parseOps (l : String) : List (String × List Int) :=
  let body := match l.splitOn ":" with
    | _ :: rest => ":".intercalate rest
    | [] => ""
  (body.splitOn ";").filterMap (fun seg =>
    match (seg.trimAscii.toString.splitOn " ").filter (· ≠ "") with
    | [] => none
    | name :: args => some (name, args.filterMap parseInt?))

def eq64 (a b : Int) : Bool := CTy.i64.wrap a == CTy.i64.wrap b

structure Res where
  ok : Bool := true
  msgs : List String := []     -- divergences between model and implementation
  mon : List String := []      -- property violations
  n : Nat := 0

def Res.fail (r : Res) (m : String) : Res := { r with ok := false, msgs := m :: r.msgs }
def Res.viol (r : Res) (m : String) : Res := { r with mon := m :: r.mon }

/-- Compare one arithmetic op with the model. Returns the remaining result lines. -/
def checkOp (r : Res) (op : String × List Int) (ls : List Line) : Res × List Line :=
  let arg (i : Nat) : Int := op.2.getD i 0
  match op.1, ls with
  | "gcs", l :: rest =>
    let S := shapeOf (arg 0)
    let w := CTy.u32.wrap (arg 1)
    let n := S.wrap (arg 2)
    let r := { r with n := r.n + 1 }
    if l.site != "r.gcs" then (r.fail s!"expected r.gcs, got {l.raw}", rest) else
    match getChunkSize S fuel w n with
    | none =>
      let r := if l.b == 1 then r else r.fail s!"get_chunk_size<{shapeName (arg 0)}>({w}, {n}): model loops for ever, implementation returned {l.a}"
      (r.viol s!"arithmetic wraps: get_chunk_size<{shapeName (arg 0)}>(num_threads={w}, n={n}) never returns (chunk_size wraps to 0), as the model of the pinned code predicts", rest)
    | some c =>
      if l.b == 1 then (r.fail s!"get_chunk_size<{shapeName (arg 0)}>({w}, {n}): model returns {c}, implementation did not return", rest)
      else if l.a != c then (r.fail s!"get_chunk_size<{shapeName (arg 0)}>({w}, {n}): model {c}, implementation {l.a}", rest)
      else (r, rest)
  | "iq", l :: rest =>
    let w := CTy.u64.wrap (arg 0)
    let k := CTy.u32.wrap (arg 1)
    let nc := CTy.u32.wrap (arg 2)
    let r := { r with n := r.n + 1 }
    let pb := partBegin w k nc
    let pe := partEnd w k nc
    let exp : Int × Int := if pb < pe then (pb, pe) else (-1, -1)
    if l.site != "r.iq" then (r.fail s!"expected r.iq, got {l.raw}", rest)
    else if (l.a, l.b) != exp then
      (r.fail s!"init_queue(w={w}, worker={k}, num_chunks={nc}): model {exp}, implementation ({l.a}, {l.b})", rest)
    else (r, rest)
  | "chunk", l :: l2 :: rest =>
    let S := shapeOf (arg 0)
    let j := CTy.u32.wrap (arg 1)
    let c := CTy.u32.wrap (arg 2)
    let n := S.wrap (arg 3)
    let r := { r with n := r.n + 1 }
    let ib := iBegin S j c
    let ie := iEnd S j c n
    let cnt : Int := if ib < ie then min (ie - ib) 64 else 0
    let first : Int := if ib < ie then ib else -1
    let ub := !(doWorkChunkNoUB S j c n)
    let what := s!"do_work_chunk<{shapeName (arg 0)}>(index={j}, chunk_size={c}, n={n})"
    if l.site != "r.chunk" || l2.site != "r.chunk2" then (r.fail s!"expected r.chunk/r.chunk2, got {l.raw}", rest)
    else if !(eq64 l.a first) || l.b != cnt then
      (r.fail s!"{what}: model first={first} calls={cnt}, implementation first={l.a} calls={l.b}", rest)
    else if l2.a != 1 then (r.fail s!"{what}: indices not consecutive", rest)
    else if (l2.b == 1) != ub then
      (r.fail s!"{what}: signed overflow model={ub} implementation={l2.b}", rest)
    else if ub then
      (r.viol s!"arithmetic wraps: signed overflow (undefined behaviour) in {what}, as the model of the pinned code predicts", rest)
    else (r, rest)
  | name, _ => (r.fail s!"op {name}: missing result lines", [])

def runArith (c : Case) (ls : List Line) : Res :=
  let ops := parseOps (c.threads.headD "")
  let res := ls.filter (fun l => l.site.startsWith "r.")
  let (r, rest) := ops.foldl (fun (acc : Res × List Line) op => checkOp acc.1 op acc.2) ({}, res)
  if rest.isEmpty then r else r.fail s!"{rest.length} unexpected result lines"


/-! ### protocol acceptor on the live trace -/

structure PState where
  st : Bulk.St
  task : Nat → Option Nat := fun _ => none      -- OS thread -> worker task it is running
  pend : Nat → Bool := fun _ => false            -- CAS in flight
  skipNext : Nat → Bool := fun _ => false        -- the next `ciq.iter` repeats the load
  nev : Nat := 0
  err : Option String := none
  decs : Nat := 0
  lasts : Nat := 0

def PState.fail (p : PState) (m : String) : PState := if p.err.isSome then p else { p with err := some m }

def PState.ev (p : PState) (e : Bulk.Ev) (raw : String) : PState :=
  if p.err.isSome then p else
  match Bulk.step p.st e with
  | some s' => { p with st := s', nev := p.nev + 1 }
  | none => p.fail s!"protocol model rejects event {p.nev} [{raw}]"

/-- queue index of a hook object id (`bulk.initq` order) -/
def qOf (qobjs : List Nat) (o : Nat) : Option Nat := qobjs.idxOf? o

def protoStep (qobjs : List Nat) (p : PState) (l : Line) : PState :=
  if p.err.isSome then p else
  let t := l.tid
  match l.site with
  | "bulk.spawn" => p.ev (.spawn l.a.toNat) l.raw
  | "bulk.skip" => { p.ev (.skip l.a.toNat) l.raw with task := upd p.task t (some l.a.toNat) }
  | "bulk.task" => { p.ev (.task l.a.toNat) l.raw with task := upd p.task t (some l.a.toNat) }
  | "bulk.chunk" => p.ev (.chunk l.b.toNat l.a.toNat) l.raw
  | "bulk.exc" => p.ev (.exc l.a.toNat) l.raw
  | "bulk.last" => { p.ev (.dec l.a.toNat true) l.raw with decs := p.decs + 1, lasts := p.lasts + 1 }
  | "bulk.notlast" => { p.ev (.dec l.a.toNat false) l.raw with decs := p.decs + 1 }
  | "live.value" => p.ev (.sig false) l.raw
  | "live.error" => p.ev (.sig true) l.raw
  | "ciq.loaded" | "ciq.iter" | "ciq.ok" =>
    match p.task t, qOf qobjs l.obj with
    | some k, some q =>
      let cur := p.st.qs q
      if l.site == "ciq.ok" then
        let j := if q == k then l.a.toNat - 1 else l.b.toNat
        p.ev (.pop k q (some j)) l.raw
      else if l.site == "ciq.iter" && p.skipNext t then
        -- first loop iteration: repeats the loaded value (the live sink does not log the points,
        -- so a later `ciq.iter` of the same operation is a failed compare-exchange)
        { p with skipNext := upd p.skipNext t false }
      else
        -- a load, or a failed CAS: the observed range must be the model's current range
        let p := { p with skipNext := upd p.skipNext t (l.site == "ciq.loaded") }
        if ((cur.1 : Int), (cur.2 : Int)) != (l.a, l.b) then
          p.fail s!"queue {q}: observed range ({l.a}, {l.b}) but the model has {cur} at [{l.raw}]"
        else if l.a ≥ l.b then p.ev (.pop k q none) l.raw else p
    | _, _ => p.fail s!"index-queue event outside a worker task or on an unknown queue [{l.raw}]"
  | _ => p

def find? (ls : List Line) (site : String) : Option Line := ls.find? (fun l => l.site == site)

def count (xs : List Int) (x : Int) : Nat := (xs.filter (· == x)).length

def runLive (c : Case) (ls : List Line) : Res := Id.run do
  let mut r : Res := {}
  let code := c.getInt "S"
  let S := shapeOf code
  let n := S.wrap (c.getInt "n")
  let w : Int := match find? ls "live.pool" with
    | some l => l.a
    | none => 0
  let throws := (ls.filter (·.site == "live.throws")).map (·.a)
  let get (site : String) : Int × Int := match find? ls site with
    | some l => (l.a, l.b)
    | none => (-99, -99)
  if c.status != "ok" then
    r := r.viol s!"bulk<{shapeName code}>(n={n}) on {w} workers ended with status '{c.status}'"
    return r
  let (vsig, esig) := get "live.sig"
  let (calls, callsAtSig) := get "live.calls"
  let (bad, firstBad) := get "live.idx"
  let (maxc, oob) := get "live.max"
  let (badval, fwdOk) := get "live.val"
  let (errIdx, inflight) := get "live.err"
  -- ---- model side: the plan -----------------------------------------------------------------
  let mut modelCalls : Option Nat := none
  if n == 0 then
    if (find? ls "bulk.zero").isNone || (find? ls "bulk.plan").isSome then
      r := r.fail "n = 0: expected the fast path (bulk.zero, no plan)"
    modelCalls := some 0
  else
    match chunkSizeOf S fuel w n, find? ls "bulk.plan" with
    | none, _ => r := r.fail s!"model: get_chunk_size does not terminate for w={w} n={n} but the run ended"
    | some _, none => r := r.fail "no bulk.plan event"
    | some cs, some pl =>
      let nc := numChunksOf S n cs
      if pl.a != cs || !(eq64 pl.b nc) then
        r := r.fail s!"plan: model chunk_size={cs} num_chunks={nc}, implementation chunk_size={pl.a} num_chunks={pl.b}"
      let iqs := ls.filter (·.site == "bulk.initq")
      if iqs.length != w.toNat then r := r.fail s!"{iqs.length} init_queue events for {w} workers"
      let mut k : Nat := 0
      let mut planned : List Int := []
      for q in iqs do
        let qr := queueRange S w n cs k
        if (q.a, q.b) != qr then
          r := r.fail s!"init_queue worker {k}: model {qr}, implementation ({q.a}, {q.b})"
        planned := planned ++ (List.range (qr.2 - qr.1).toNat).map (fun (d : Nat) => qr.1 + (d : Int))
        k := k + 1
      -- every planned chunk popped at most once, exactly once if nothing threw; nothing else
      let chunks := (ls.filter (·.site == "bulk.chunk")).map (·.a)
      for j in chunks do
        if count chunks j > 1 then r := r.viol s!"chunk {j} processed {count chunks j} times"
        if !planned.contains j then r := r.fail s!"chunk {j} processed but not in any planned queue range"
      if throws.isEmpty then
        for j in planned do
          if !chunks.contains j then r := r.viol s!"chunk {j} was queued but never processed"
      modelCalls := some (totalCalls S w.toNat n cs)
  -- ---- protocol acceptor: replay the trace through the Lean model `Bulk` ------------------------
  if n != 0 then
    match chunkSizeOf S fuel w n, find? ls "bulk.local" with
    | some cs, some loc =>
      let W := w.toNat
      let ranges := (List.range W).map (fun (k : Nat) => queueRange S w n cs (k : Int))
      let consecutive := (List.range (W - 1)).all (fun k => (ranges.getD k (0, 0)).2 == (ranges.getD (k + 1) (0, 0)).1)
      let monotone := ranges.all (fun r => 0 ≤ r.1 && r.1 ≤ r.2)
      if loc.a.toNat ≥ W || loc.a < 0 then
        r := r.fail s!"set_value ran with local worker index {loc.a}, which is not a worker of the {W}-worker pool"
      else if !(consecutive && monotone) then
        r := r.fail s!"planned queue ranges {ranges} are not consecutive: outside the protocol model"
      else
        let cuts : Nat → Nat := fun k => if k < W then (ranges.getD k (0, 0)).1.toNat else (ranges.getD (W - 1) (0, 0)).2.toNat
        let qobjs := (ls.filter (·.site == "bulk.initq")).map (·.obj)
        let p0 : PState := { st := Bulk.init W loc.a.toNat cuts }
        let tl := ls.dropWhile (fun l => l.site != "bulk.local")
        let p := tl.foldl (protoStep qobjs) p0
        match p.err with
        | some m => r := r.fail m
        | none =>
          if p.st.signals != 1 || p.st.remaining != 0 then
            r := r.fail s!"protocol model: run ended with remaining={p.st.remaining} signals={p.st.signals}"
        let lasts := (tl.filter (·.site == "bulk.last")).length
        let decs := lasts + (tl.filter (·.site == "bulk.notlast")).length
        if decs != W then r := r.viol s!"{decs} decrements of the join counter initialised to {W}"
        if lasts != 1 then r := r.viol s!"{lasts} participants saw the join counter reach 0"
    | _, _ => pure ()
  -- ---- composed model (C11c): plan from the generated arithmetic, index-queue loads / CASes,
  --      index loop with the value pack, exception slot, completion -----------------------------
  if n ≥ 0 then
    for m in BulkCDrv.replay S w.toNat n.toNat ls calls do
      r := r.fail m
  -- ---- independent monitors on the observable summary ---------------------------------------
  let what := s!"bulk<{shapeName code}>(n={n}) on {w} workers"
  if vsig + esig != 1 then r := r.viol s!"{what}: receiver signalled {vsig} value(s) and {esig} error(s)"
  if oob != 0 then r := r.viol s!"{what}: f called {oob} times with an index outside [0, n)"
  if maxc > 1 then r := r.viol s!"{what}: some index was called {maxc} times"
  if badval != 0 then r := r.viol s!"{what}: {badval} calls saw a changed predecessor value"
  if fwdOk != 1 then r := r.viol s!"{what}: wrong value forwarded to the receiver"
  if callsAtSig != calls then
    r := r.viol s!"{what}: receiver signalled after {callsAtSig} calls had returned, {calls} calls were made in the end"
  if inflight != 0 then r := r.viol s!"{what}: {inflight} call(s) of f still running when the receiver was signalled"
  if throws.isEmpty then
    if esig != 0 then r := r.viol s!"{what}: error signalled although no call threw"
    if calls != n then
      if modelCalls == some calls.toNat then
        r := r.viol s!"arithmetic wraps: {what} called f {calls} times (not n), as the model of the pinned code predicts"
      else r := r.viol s!"{what}: f called {calls} times"
    else if bad != 0 then r := r.viol s!"{what}: {bad} indices not called exactly once (first: {firstBad})"
    match modelCalls with
    | some m => if (m : Int) != calls then r := r.fail s!"model predicts {m} calls, implementation made {calls}"
    | none => pure ()
  else
    if vsig != 0 || esig != 1 then r := r.viol s!"{what}: a call threw but the receiver got {vsig} value(s), {esig} error(s)"
    if !throws.contains errIdx then r := r.viol s!"{what}: error {errIdx} is not one of the thrown exceptions {throws}"
  return { r with n := 1 }

def runCase (c : Case) : String :=
  let parsed := c.lines.map parseLine
  if parsed.any Option.isNone then s!"case {c.id} reject 0 malformed-line" else
  let ls := parsed.filterMap id
  let r := if c.get "kind" == "arith" then runArith c ls else runLive c ls
  let monS := if r.mon.isEmpty then "monitors ok" else "monitors FAIL: " ++ " | ".intercalate r.mon.reverse
  if r.ok then s!"case {c.id} accept {r.n} ; final ok ; {monS}"
  else s!"case {c.id} reject 0 [{" | ".intercalate r.msgs.reverse}] ; {monS}"

end Driver.BulkDrv
