import PikaVerif.Model.Barrier
import Driver.Util
/-! Driver for the barrier model (C09, barrier part): parser, acceptor run, independent monitors. -/
namespace Driver.BarrierDrv
open PikaVerif PikaVerif.Barrier Driver

/-- Translate hook lines to model events.  A `PIKA_VERIF_POINT` line (logged when the thread
    continues) opens an atomic block; the `PIKA_VERIF_POST` line that carries the outcome of the
    access made in that block follows it immediately and is merged with it.  `ag.yield` (the
    `yield_k` between two polls of `wait`) carries no state change and is dropped. -/
partial def toEvents : List Line → List (Option Ev × String) → List (Option Ev × String)
  | [], acc => acc.reverse
  | l :: rest, acc =>
    let t := l.tid
    let push (e : Ev) := toEvents rest ((some e, l.raw) :: acc)
    let bad := fun (_ : Unit) => toEvents rest ((none, l.raw) :: acc)
    -- merge with the next line if it is from the same thread and has site `s2`
    let merge (f : Line → Option Ev) :=
      match rest with
      | r :: rest' =>
        if r.tid == t then
          match f r with
          | some e => toEvents rest' ((some e, l.raw ++ " + " ++ r.raw) :: acc)
          | none => bad ()
        else bad ()
      | [] => bad ()
    match l.site with
    | "ag.yield" => toEvents rest acc
    -- hook lines of the follow-up C09t (fine model `barriert`): stutter steps of this model
    | "bar.adjld" | "bar.adjv" | "bar.adjst" | "bar.block" | "bar.spinok" => toEvents rest acc
    | "inv.arrive" => push (.inv t (.arrive l.a.toNat))
    | "inv.wait" => push (.inv t .wait)
    | "inv.aw" => push (.inv t .aw)
    | "inv.drop" => push (.inv t .drop)
    | "ret" => push (.ret t)
    | "done" => push (.done t)
    | "bar.enter" => merge (fun r => if r.site == "bar.arrive" then some (.load t r.a.toNat r.b.toNat) else none)
    | "bar.start" => push (.start t l.a.toNat)
    | "bar.try" => merge (fun r =>
        if r.site == "bar.half" && r.a == l.a && r.b == l.b then some (.cas t l.a.toNat l.b.toNat .half)
        else if r.site == "bar.up" && r.a == l.a && r.b == l.b then some (.cas t l.a.toNat l.b.toNat .up)
        else if r.site == "bar.seen" && r.a == l.a && r.b == l.b then some (.cas t l.a.toNat l.b.toNat .seen)
        else if r.site == "bar.miss" && r.a == l.a then some (.cas t l.a.toNat l.b.toNat (.miss r.b.toNat))
        else none)
    | "bar.try2" => merge (fun r =>
        if r.site == "bar.up" && r.a == l.a && r.b == l.b then some (.cas2 t l.a.toNat l.b.toNat .up)
        else if r.site == "bar.miss" && r.a == l.a then some (.cas2 t l.a.toNat l.b.toNat (.miss r.b.toNat))
        else none)
    | "bar.last" => push (.last t l.a.toNat l.b.toNat)
    | "bar.compl" => push (.compl t)
    | "bar.publish" => merge (fun r => if r.site == "bar.phase" then some (.publish t r.a.toNat r.b.toNat) else none)
    | "bar.poll" => merge (fun r =>
        if r.site == "bar.polled" && r.a == l.a then some (.poll t r.a.toNat r.b.toNat) else none)
    | "bar.drop" => merge (fun r => if r.site == "bar.adj" then some (.adj t) else none)
    | _ => bad ()

def accept (s : St) : List (Option Ev × String) → Nat → Except (Nat × String) St
  | [], _ => .ok s
  | (none, raw) :: _, i => .error (i, "unparsed: " ++ raw)
  | (some e, raw) :: rest, i =>
    match step s e with
    | some s' => accept s' rest (i + 1)
    | none => .error (i, raw)

def pcClass (s : St) (t : Nat) : String :=
  match s.pc t with
  | .idle => "idle"
  | .fin => "fin"
  | .polling => if s.phase == s.tok t then "waiting" else "enabled"
  | _ => "enabled"

/-- Independent monitors on the raw event list (tests, not proofs): they recompute the property
    from observables only — arrivals (`bar.half` / `bar.last` = a call of base.arrive returned),
    completion calls, phase stores, departures from `wait`. -/
structure Mon where
  expected : Int
  drops : Int := 0            -- bar.adj since the last phase store
  phases : Nat := 0           -- phase stores so far
  byte : Int := 0             -- current phase byte
  arrived : Int := 0          -- base.arrive calls that returned in the current phase
  lasts : Nat := 0            -- `true` returns in the current phase
  compls : Nat := 0           -- completion calls in the current phase
  tokPhase : Nat → Nat := fun _ => 0   -- phase index at the thread's last `bar.arrive`
  tokByte : Nat → Int := fun _ => 0
  waitTok : Nat → Int := fun _ => 0    -- token passed to the wait in progress
  left : Nat → Bool := fun _ => false  -- last poll of the thread saw a different phase
  curOp : Nat → String := fun _ => ""
  viol : List String := []

def Mon.v (m : Mon) (msg : String) : Mon := { m with viol := msg :: m.viol }

def monStep (m : Mon) (l : Line) : Mon :=
  let t := l.tid
  match l.site with
  | "bar.adj" => { m with drops := m.drops + 1 }
  | "bar.arrive" =>
    let m := { m with tokPhase := upd m.tokPhase t m.phases, tokByte := upd m.tokByte t l.a }
    let m := if l.a != m.byte then m.v s!"thread {t}: arrive read phase byte {l.a}, current is {m.byte}" else m
    if l.b != m.expected then m.v s!"thread {t}: arrive saw expected {l.b}, should be {m.expected}" else m
  | "bar.half" => { m with arrived := m.arrived + 1 }
  | "bar.last" =>
    let m := { m with arrived := m.arrived + 1, lasts := m.lasts + 1 }
    let m := if m.arrived != m.expected then
      m.v s!"phase {m.phases}: base.arrive returned true to thread {t} after {m.arrived} of {m.expected} arrivals" else m
    if m.lasts != 1 then m.v s!"phase {m.phases}: base.arrive returned true {m.lasts} times" else m
  | "bar.compl" =>
    let m := { m with compls := m.compls + 1 }
    let m := if m.compls != 1 then m.v s!"phase {m.phases}: completion function called {m.compls} times" else m
    if m.arrived != m.expected then
      m.v s!"phase {m.phases}: completion function ran after {m.arrived} of {m.expected} arrivals" else m
  | "bar.phase" =>
    let m := if m.compls != 1 || m.lasts != 1 then
      m.v s!"phase {m.phases}: published with {m.compls} completion calls and {m.lasts} last-arrivers" else m
    let m := if m.arrived != m.expected then
      m.v s!"phase {m.phases}: published after {m.arrived} of {m.expected} arrivals" else m
    let m := if l.a != (m.byte + 2) % 256 then
      m.v s!"phase {m.phases}: phase byte {m.byte} advanced to {l.a}" else m
    let ne := m.expected - m.drops
    let m := if l.b != ne then
      m.v s!"phase {m.phases}: expected after {m.drops} drop(s) is {l.b}, should be {ne}" else m
    { m with expected := l.b, drops := 0, phases := m.phases + 1, byte := l.a, arrived := 0, lasts := 0, compls := 0 }
  | "inv.wait" => { m with waitTok := upd m.waitTok t l.a, left := upd m.left t false, curOp := upd m.curOp t l.site }
  | "inv.aw" | "inv.arrive" | "inv.drop" => { m with left := upd m.left t false, curOp := upd m.curOp t l.site }
  | "ret" =>
    -- departure from wait / arrive_and_wait: the phase of the thread's token must be published
    if (m.curOp t == "inv.wait" || m.curOp t == "inv.aw") && m.phases ≤ m.tokPhase t then
      m.v s!"thread {t} returned from {m.curOp t} of phase {m.tokPhase t} before that phase was published ({m.phases} published)"
    else m
  | "bar.polled" =>
    if l.b != l.a then
      -- the waiter leaves: the phase its token belongs to must have been published
      let m := { m with left := upd m.left t true }
      if l.a == m.tokByte t && m.phases ≤ m.tokPhase t then
        m.v s!"thread {t} left wait of phase {m.tokPhase t} (token {l.a}) before the phase completed ({m.phases} published)"
      else m
    else
      if l.a == m.tokByte t && m.phases > m.tokPhase t && m.phases - m.tokPhase t < 128 then
        m.v s!"thread {t} keeps waiting for phase {m.tokPhase t} although {m.phases} phases are published"
      else m
  | _ => m

def monitors (c : Case) (ls : List Line) : List String :=
  let m := ls.foldl monStep { expected := c.getInt "n" }
  let stv := if c.status == "ok" then [] else [s!"run ended with status '{c.status}' (a participant never returned)"]
  m.viol.reverse ++ stv

def runCase (c : Case) : String :=
  let n := c.threads.length
  let parsed := c.lines.map parseLine
  if parsed.any Option.isNone then s!"case {c.id} reject 0 malformed-line" else
  let ls := parsed.filterMap id
  let evs := toEvents ls []
  let mon := monitors c ls
  let monS := if mon.isEmpty then "monitors ok" else "monitors FAIL: " ++ " | ".intercalate mon
  match accept (Barrier.init n (c.getNat "n")) evs 0 with
  | .error (i, raw) => s!"case {c.id} reject {i} [{raw}] ; {monS}"
  | .ok s =>
    let classes := (List.range n).map (pcClass s)
    let fin :=
      if c.status == "ok" then
        if classes.all (· == "fin") then s!"final ok phases={s.ph} expected={s.expected}"
        else "final MISMATCH: run ended but model threads " ++ toString classes
      else s!"final status {c.status} model threads {classes}"
    s!"case {c.id} accept {evs.length} ; {fin} ; {monS}"

end Driver.BarrierDrv
