/-! Line-protocol utilities shared by the model drivers. -/
namespace Driver

structure Line where
  tid : Nat
  site : String
  obj : Nat
  a : Int
  b : Int
  raw : String
  deriving Repr

def parseInt? (s : String) : Option Int :=
  if s.startsWith "-" then (s.drop 1).toNat?.map (fun n => - (n : Int)) else s.toNat?.map (fun n => (n : Int))

def parseLine (l : String) : Option Line :=
  match l.trimAscii.toString.splitOn " " with
  | [t, site, o, a, b] =>
    match t.toNat?, o.toNat?, parseInt? a, parseInt? b with
    | some t, some o, some a, some b => some { tid := t, site := site, obj := o, a := a, b := b, raw := l }
    | _, _, _, _ => none
  | _ => none

/-- A case as written by the E1 harnesses. -/
structure Case where
  id : String
  kv : List (String × String)
  threads : List String
  lines : List String      -- event lines
  status : String          -- text after `end `
  deriving Repr

def Case.get (c : Case) (k : String) (d : String := "") : String :=
  match c.kv.find? (fun p => p.1 == k) with
  | some p => p.2
  | none => d

def Case.getNat (c : Case) (k : String) (d : Nat := 0) : Nat := ((c.get k).toNat?).getD d
def Case.getInt (c : Case) (k : String) (d : Int := 0) : Int := (parseInt? (c.get k)).getD d

def parseHeader (l : String) : String × List (String × String) :=
  match (l.drop 5).trimAscii.toString.splitOn " " with
  | [] => ("", [])
  | id :: rest =>
    (id, rest.filterMap (fun kv => match kv.splitOn "=" with
      | [k, v] => some (k, v)
      | _ => none))

partial def readCases (h : IO.FS.Stream) (acc : Array Case) (cur : Option Case) : IO (Array Case) := do
  let line ← h.getLine
  if line.isEmpty then return acc
  let l := line.trimAscii.toString
  if l.startsWith "case " then
    let (id, kv) := parseHeader l
    readCases h acc (some { id := id, kv := kv, threads := [], lines := [], status := "" })
  else match cur with
    | none => readCases h acc none
    | some c =>
      if l == "endcase" then
        readCases h (acc.push { c with lines := c.lines.reverse, threads := c.threads.reverse }) none
      else if l.startsWith "thread " then
        readCases h acc (some { c with threads := l :: c.threads })
      else if l.startsWith "end " then
        readCases h acc (some { c with status := (l.drop 4).toString })
      else if l.isEmpty then readCases h acc cur
      else readCases h acc (some { c with lines := l :: c.lines })

end Driver
