import PikaVerif.Model.Erase
import Driver.Util
/-! Driver for the type-erasure model (C18): replays a harness history on the Lean model,
    compares every output line, and runs independent monitors (ledger fold on the raw
    events; value-semantics reference `specExec`). -/
namespace Driver.EraseDrv
open PikaVerif PikaVerif.Erase Driver

def kindOf : Char → Option Kind
  | 'F' => some .fn
  | 'Q' => some .ufn
  | 'U' => some .uas
  | 'A' => some .as
  | _ => none

def mkCfg (kinds : String) (sbo pinned : Bool) : Cfg :=
  let ks := kinds.toList.filterMap kindOf
  { n := ks.length, kind := fun i => ks.getD i .fn, sbo := sbo, pinned := pinned }

def showRes : Res → String
  | .ok => "ok"
  | .bool b => if b then "bool 1" else "bool 0"
  | .ret v r => s!"ret {v} {if r then 1 else 0}"
  | .perr v => s!"perr {v}"
  | .badcall => "badcall"
  | .value v => s!"value {v}"
  | .error v => s!"error {v}"
  | .stopped => "stopped"
  | .invalid => "invalid"
  | .ub => "ub"

def showEv : LEv → String
  | .C i v => s!"C{i}:{v}"
  | .K i s => s!"K{i}:{s}"
  | .M i s => s!"M{i}:{s}"
  | .D i => s!"D{i}"
  | .X i => s!"X{i}"
  | .L i => s!"L{i}"
  | .F i => s!"F{i}"

def showOut (r : Res) (evs : List LEv) : String :=
  showRes r ++ " |" ++ String.join (evs.map (fun e => " " ++ showEv e))

def parseOp (name : String) (a : List Int) : Option Op :=
  let n (k : Nat) : Nat := (a.getD k 0).toNat
  let z (k : Nat) : Int := a.getD k 0
  let ty : PTy := { big := z 1 != 0, copyable := z 2 != 0, mode := n 3 }
  if a.any (· < 0) && name != "call" && name != "newp" && name != "set" then none else
  match name, a.length with
  | "new", 1 => some (.new (n 0))
  | "newp", 6 => some (.newp (n 0) ty (z 4) (z 5 != 0))
  | "set", 6 => some (.set (n 0) ty (z 4) (z 5 != 0))
  | "del", 1 => some (.del (n 0))
  | "reset", 1 => some (.reset (n 0))
  | "copy", 2 => some (.copy (n 0) (n 1))
  | "move", 2 => some (.move (n 0) (n 1))
  | "cctor", 2 => some (.cctor (n 0) (n 1))
  | "mctor", 2 => some (.mctor (n 0) (n 1))
  | "swap", 2 => some (.swap (n 0) (n 1))
  | "empty", 1 => some (.empty (n 0))
  | "call", 2 => some (.call (n 0) (z 1))
  | "run", 1 => some (.run (n 0))
  | "runc", 1 => some (.runc (n 0))
  | "arm", 1 => some (.arm (n 0))
  | _, _ => none

/-- `o <name> <args…> => <result> |<events>` → (op, observed output text, observed result
    text, observed event tokens) -/
def parseLine (l : String) : Option (Op × String × String × List String) :=
  match l.splitOn " => " with
  | [lhs, rhs] =>
    match lhs.trimAscii.toString.splitOn " " with
    | "o" :: name :: args =>
      let ints := args.map parseInt?
      if ints.any Option.isNone then none else
      match parseOp name (ints.filterMap id) with
      | some op =>
        match rhs.splitOn " |" with
        | [r, e] => some (op, rhs.trimAscii.toString, r.trimAscii.toString,
                          (e.splitOn " ").filter (· ≠ ""))
        | _ => none
      | none => none
    | _ => none
  | _ => none

/-- Ledger monitor state (from raw event tokens only). -/
structure Led where
  next : Nat := 0
  alive : List Nat := []
  viol : List String := []

def tokId (t : String) : Option (String × Nat × Option Int) :=
  -- "K12:3" → ("K", 12, some 3) ; "D!4" → ("D!", 4, none)
  let kind := (t.toList.takeWhile (fun ch => !ch.isDigit && ch != '-')) |> String.ofList
  let rest := (t.drop kind.length).toString
  match rest.splitOn ":" with
  | [a] => a.toNat?.map (fun n => (kind, n, none))
  | [a, b] => match a.toNat?, parseInt? b with
    | some n, some m => some (kind, n, some m)
    | _, _ => none
  | _ => none

def ledStep (m : Led) (t : String) : Led :=
  match tokId t with
  | none => { m with viol := s!"unreadable ledger event {t}" :: m.viol }
  | some (k, id, src) =>
    if k == "C" || k == "K" || k == "M" then
      let m := if id != m.next then { m with viol := s!"object id {id} constructed out of order (expected {m.next})" :: m.viol } else m
      let m := if k != "C" then
          match src with
          | some sid => if m.alive.contains sid.toNat then m else
              { m with viol := s!"object {id} constructed from object {sid} which is not alive" :: m.viol }
          | none => m
        else m
      { m with next := id + 1, alive := id :: m.alive }
    else if k == "D" then
      if m.alive.contains id then { m with alive := m.alive.erase id }
      else { m with viol := s!"object {id} destroyed although not alive (destroyed twice or never constructed)" :: m.viol }
    else if k == "X" || k == "L" then
      if m.alive.contains id then m else { m with viol := s!"connect on object {id} which is not alive" :: m.viol }
    else if k == "F" then
      if m.alive.contains id then m else { m with viol := s!"construction from object {id} which is not alive" :: m.viol }
    else { m with viol := s!"payload reported misuse: {t}" :: m.viol }

def runCase (c : Case) : String :=
  let cfg := mkCfg (c.get "kinds" "FQUA") (c.get "sbo" "0" == "1") (c.get "pinned" "0" == "1")
  let parsed := c.lines.map parseLine
  match parsed.findIdx? Option.isNone with
  | some i => s!"case {c.id} reject {i} [unparsed: {c.lines.getD i ""}] ; monitors ok"
  | none =>
  let items := parsed.filterMap id
  -- monitors: ledger fold and the value-semantics reference
  let led := items.foldl (fun m it => it.2.2.2.foldl ledStep m) ({} : Led)
  let (specV, aFinal) := items.foldl (fun (acc : List String × ASt) it =>
      let (op, _, r, _) := it
      let sr := specExec cfg acc.2 op
      let want := showRes sr.2
      -- the address-stability flag of `ret` is not part of the reference result
      let got := if r.startsWith "ret " then (r.dropEnd 1).toString ++ "0" else r
      (if got == want then acc.1 else s!"{reprStr op}: wrapper gave '{r}' but the wrapped object itself gives '{want}'" :: acc.1, sr.1))
    ([], ASt.init)
  let allDead := (List.range cfg.n).all (fun i => aFinal.slots i == ASlot.dead)
  let endV := if c.status == "ok" && allDead && !led.alive.isEmpty then
      [s!"all wrappers destroyed but objects {led.alive.reverse} were never destroyed"] else []
  let stV := if c.status == "ok" then [] else [s!"run ended with status '{c.status}'"]
  let mon := led.viol.reverse ++ specV.reverse ++ endV ++ stV
  let monS := if mon.isEmpty then "monitors ok" else "monitors FAIL: " ++ " | ".intercalate mon
  -- the tie: the model's output for every operation equals the implementation's
  let rec go (s : St) (its : List (Op × String × String × List String)) (i : Nat) : Except (Nat × String) St :=
    match its with
    | [] => .ok s
    | (op, obs, _, _) :: rest =>
      let o := exec cfg s op
      let want := showOut o.res o.evs
      if want == obs then go o.st rest (i + 1)
      else .error (i, s!"{reprStr op}: impl '{obs}' model '{want}'")
  match go Erase.init items 0 with
  | .error (i, msg) => s!"case {c.id} reject {i} [{msg}] ; {monS}"
  | .ok s =>
    let held := (List.range cfg.n).filter (fun i => (s.slot i).obj.isSome)
    s!"case {c.id} accept {items.length} ; final objects={s.next} held={held.length} ; {monS}"

end Driver.EraseDrv
