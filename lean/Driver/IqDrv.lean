import PikaVerif.Model.IndexQueue
import Driver.Util
/-! Driver for the index-queue model (C11 / C17Index): parser, acceptor run, independent monitors. -/
namespace Driver.IqDrv
open PikaVerif PikaVerif.IQ Driver

/-- Translate hook lines to model events.  `ciq.load` (the point before the load) is a stutter;
    `ciq.cas` (the point before the compare-exchange) marks the thread as "CAS in flight": the
    next `ciq.iter` of that thread is the failed CAS (carrying the observed range), `ciq.ok` the
    successful one.  A `ciq.iter` without a CAS in flight is the first loop iteration and only
    repeats the loaded value (checked). -/
def toEvents : List Line → (Nat → Bool) → (Nat → Int × Int) → List (Option Ev × String) →
    List (Option Ev × String)
  | [], _, _, acc => acc.reverse
  | l :: rest, pend, seen, acc =>
    let t := l.tid
    let push (e : Ev) (pend' := pend) (seen' := seen) := toEvents rest pend' seen' ((some e, l.raw) :: acc)
    let bad (_ : Unit) := toEvents rest pend seen ((none, l.raw) :: acc)
    match l.site with
    | "ciq.load" => toEvents rest pend seen acc
    | "inv.popl" => push (.inv t .L)
    | "inv.popr" => push (.inv t .R)
    | "ciq.loaded" => push (.load t l.a l.b) pend (upd seen t (l.a, l.b))
    | "ciq.cas" => if pend t then bad () else toEvents rest (upd pend t true) seen acc
    | "ciq.iter" =>
      if pend t then push (.cas t false l.a l.b) (upd pend t false) (upd seen t (l.a, l.b))
      else if seen t == (l.a, l.b) then toEvents rest pend seen acc else bad ()
    | "ciq.ok" => if pend t then push (.cas t true l.a l.b) (upd pend t false) else bad ()
    | "ret" => push (.ret t (if l.a != 0 then some l.b else none))
    | "done" => push (.done t)
    | _ => bad ()

def accept (s : St) : List (Option Ev × String) → Nat → Except (Nat × String) St
  | [], _ => .ok s
  | (none, raw) :: _, i => .error (i, "unparsed: " ++ raw)
  | (some e, raw) :: rest, i =>
    match step s e with
    | some s' => accept s' rest (i + 1)
    | none => .error (i, raw)

/-- Independent monitors on the raw lines (observables only: operation kinds and results). -/
structure Mon where
  first : Int
  last : Int
  cur : Nat → String := fun _ => ""
  got : List Int := []
  lastL : Option Int := none
  lastR : Option Int := none
  ops : Nat := 0
  viol : List String := []

def monStep (m : Mon) (l : Line) : Mon :=
  let t := l.tid
  match l.site with
  | "inv.popl" | "inv.popr" => { m with cur := upd m.cur t l.site, ops := m.ops + 1 }
  | "ret" =>
    if l.a != 0 then
      let i := l.b
      let v1 := if m.got.contains i then [s!"index {i} returned twice"] else []
      let v2 := if i < m.first || i ≥ m.last then [s!"index {i} outside the initial range [{m.first},{m.last})"] else []
      if m.cur t == "inv.popl" then
        let v3 := match m.lastL with
          | some p => if i ≤ p then [s!"pop_left returned {i} after {p} (not ascending)"] else []
          | none => []
        { m with got := i :: m.got, lastL := some i, viol := v1 ++ v2 ++ v3 ++ m.viol }
      else
        let v3 := match m.lastR with
          | some p => if i ≥ p then [s!"pop_right returned {i} after {p} (not descending)"] else []
          | none => []
        { m with got := i :: m.got, lastR := some i, viol := v1 ++ v2 ++ v3 ++ m.viol }
    else
      if (m.got.length : Int) < m.last - m.first then
        { m with viol := s!"thread {t}: nullopt although only {m.got.length} of {m.last - m.first} indices had been popped" :: m.viol }
      else m
  | _ => m

def monitors (c : Case) (ls : List Line) : List String :=
  let m := ls.foldl monStep { first := c.getInt "first", last := c.getInt "last" }
  let size := (m.last - m.first).toNat
  let endv := if c.status == "ok" && m.got.length != min m.ops size then
      [s!"{m.got.length} indices returned by {m.ops} pops on a queue of {size}"] else []
  let stv := if c.status == "ok" then [] else [s!"run ended with status '{c.status}'"]
  m.viol.reverse ++ endv ++ stv

def runCase (c : Case) : String :=
  let n := c.threads.length
  let parsed := c.lines.map parseLine
  if parsed.any Option.isNone then s!"case {c.id} reject 0 malformed-line" else
  let ls := parsed.filterMap id
  let evs := toEvents ls (fun _ => false) (fun _ => (0, 0)) []
  let mon := monitors c ls
  let monS := if mon.isEmpty then "monitors ok" else "monitors FAIL: " ++ " | ".intercalate mon
  match accept (IQ.init n (c.getInt "first") (c.getInt "last")) evs 0 with
  | .error (i, raw) => s!"case {c.id} reject {i} [{raw}] ; {monS}"
  | .ok s =>
    let allFin := (List.range n).all (fun t => s.pc t == .fin)
    let fin := if c.status == "ok" then
        (if allFin then s!"final ok popped={s.poppedL.length}+{s.poppedR.length} left=[{s.first},{s.last})"
         else "final MISMATCH: run ended but some model thread is inside an operation")
      else s!"final status {c.status}"
    s!"case {c.id} accept {evs.length} ; {fin} ; {monS}"

end Driver.IqDrv
