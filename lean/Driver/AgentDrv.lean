import PikaVerif.Model.Agent
import Driver.Util
/-! Driver for the `default_agent` hand-shake model (C07, follow-up C07h): exact logs of
`harness/e2/agent_live.cpp` (real OS threads blocking on pika condition variables through the real
`default_agent`).  One model instance per agent object (`dag.*` lines carry the agent's address as
object id); `cv.*` / `x.*` lines are observations for the monitors only. -/
namespace Driver.AgentDrv
open PikaVerif PikaVerif.Agent Driver

structure Ag where
  obj : Nat
  st : St
  -- independent monitor state (recomputed from the raw lines, not from the model)
  parks : Nat := 0
  gos : Nat := 0
  rets : Nat := 0        -- returns from resume()/abort()
  parked : Bool := false -- last dag.s.park not yet followed by dag.s.woke
  goSince : Bool := false -- a dag.r.go / dag.a.go since the last dag.s.park

def findAg (ags : List Ag) (o : Nat) : Option Ag := ags.find? (fun a => a.obj == o)
def setAg (ags : List Ag) (a : Ag) : List Ag :=
  if ags.any (fun x => x.obj == a.obj) then ags.map (fun x => if x.obj == a.obj then a else x) else ags ++ [a]

def isOwnerSite (s : String) : Bool :=
  s == "dag.new" || s == "dag.yield" || s == "dag.sleep" || s == "dag.slept" || s.startsWith "dag.s."

/-- Model events of one log line, given the current model state of that agent. -/
def trans (s : St) (l : Line) : Option (List Ev) :=
  let t := l.tid
  let a := l.a != 0
  let kind (p : String) : Option Bool :=
    if l.site.startsWith "dag.r." then (if l.site == "dag.r." ++ p then some false else none)
    else if l.site.startsWith "dag.a." then (if l.site == "dag.a." ++ p then some true else none)
    else none
  match l.site with
  | "dag.new" => some []
  | "dag.yield" => some [.yield t]
  | "dag.sleep" => some [.sleepB t]
  | "dag.slept" => some [.sleepE t]
  | "dag.s.call" => some [.sCall t]
  | "dag.s.acq" => some [.sAcq t]
  | "dag.s.park" => some [.sPark t]
  | "dag.s.woke" =>
    (match s.pc t with
     | .sHold2 => some []               -- the exit of the OS wait (x.os.wait … 1) has been replayed already
     | _ => some [.sWake t a])
  -- OS-level waits of the agent's two std::condition_variables (interposed pthread_cond_wait; a = 0: about to
  -- release the mutex and block, a = 1: woken - by a notification or spuriously - with the mutex re-acquired)
  | "x.os.wait" =>
    (match l.a != 0, s.pc t with
     | false, .rHold _ => some [.rChk t true]        -- the predicate was false again: wait once more
     | false, _ => some []
     | true, .sWait sig => some ((if sig then [] else [.spur t]) ++ [.sWake t s.running])
     | true, .rWait _ sig => some ((if sig then [] else [.spur t]) ++ [.rWake t])
     | true, _ => none)
  | "x.os.notify" => some []
  | "dag.s.ret" => some [.sRet t (l.a.toNat / 2 % 2 == 1)]
  | _ =>
    match kind "call", kind "acq", kind "chk", kind "go", kind "ret" with
    | some ab, _, _, _, _ => some [.rCall t ab]
    | _, some _, _, _, _ => some [.rAcq t, .rChk t a]
    | _, _, some _, _, _ =>
      (match s.pc t with
       | .rSet _ => some []
       | .rHold _ => some [.rChk t a]
       | .rWait _ _ => some [.rWake t, .rChk t a]
       | _ => none)
    | _, _, _, some _, _ => some [.rGo t]
    | _, _, _, _, some _ => some [.rRel t]
    | _, _, _, _, _ => none

/-- Sites whose payload is (running_, aborted_) as read under the mutex right after the modelled step. -/
def valueSite (s : String) : Bool :=
  s == "dag.s.acq" || s == "dag.s.park" || s == "dag.s.woke" ||
  s == "dag.r.acq" || s == "dag.r.chk" || s == "dag.r.go" || s == "dag.a.acq" || s == "dag.a.chk" || s == "dag.a.go"

def retSite (s : String) : Bool := s == "dag.s.ret" || s == "dag.r.ret" || s == "dag.a.ret"

def isAbortCall (l : Line) (s : St) : Bool :=
  match s.pc l.tid with
  | .rLock ab | .rHold ab | .rSet ab | .rDone ab => ab
  | .rWait ab _ => ab
  | _ => false

def stepLine (s : St) (l : Line) : Except String St :=
  match trans s l with
  | none => .error "no model event for this line in the thread's state"
  | some evs =>
    -- a `dag.a.*` line must belong to an abort() call, a `dag.r.*` line to a resume() call
    let kindOk := if l.site.startsWith "dag.a." && l.site != "dag.a.call" then isAbortCall l s
                  else if l.site.startsWith "dag.r." && l.site != "dag.r.call" then !(isAbortCall l s) else true
    if !kindOk then .error "resume/abort line inside the other operation" else
    match runLog (step .code) s evs with
    | none => .error "rejected by Agent.step"
    | some s' =>
      if valueSite l.site && (s'.running != (l.a != 0) || s'.aborted != (l.b != 0)) then
        .error s!"values differ: model running={s'.running} aborted={s'.aborted}"
      else if retSite l.site && (s.running != (l.a.toNat % 2 == 1) || s.aborted != (l.a.toNat / 2 % 2 == 1)) then
        .error s!"values differ at return: model running={s.running} aborted={s.aborted}"
      else .ok s'

/-- Independent monitors: simple counters per agent over the raw lines. -/
def monLine (a : Ag) (l : Line) : Ag × List String :=
  match l.site with
  | "dag.s.park" => ({ a with parks := a.parks + 1, parked := true, goSince := false }, [])
  | "dag.s.woke" =>
    ({ a with parked := false },
     if a.parked && !a.goSince then
       [s!"suspend() of thread {l.tid} returned from its wait although no resume()/abort() had stored running_ = true since it suspended (spurious return of suspend)"]
     else [])
  | "dag.r.go" | "dag.a.go" =>
    ({ a with gos := a.gos + 1, goSince := true },
     if !a.parked || a.goSince then
       [s!"resume()/abort() by thread {l.tid} stored running_ = true although the target agent had not suspended (it did not wait for the suspension: the wake-up is lost if the target suspends next)"]
     else [])
  | "dag.r.ret" | "dag.a.ret" => ({ a with rets := a.rets + 1 }, [])
  | _ => (a, [])

structure Acc where
  ags : List Ag := []
  n : Nat := 0
  err : Option (Nat × String) := none
  mons : List String := []

def feed (acc : Acc) (l : Line) : Acc :=
  if !(l.site.startsWith "dag." || l.site.startsWith "x.os.") then acc else
  if l.site.startsWith "x.os." && (findAg acc.ags l.obj).isNone then acc else
  let ag := match findAg acc.ags l.obj with
    | some a => a
    | none =>
      -- owner = the thread of the first owner-side line; an agent first seen through resume()/abort() was
      -- created before logging started: give it an owner id no logged thread has
      { obj := l.obj, st := init (if isOwnerSite l.site then l.tid else 1000000 + l.obj) }
  let (ag, m) := monLine ag l
  let acc := { acc with mons := acc.mons ++ m }
  match acc.err with
  | some _ => { acc with ags := setAg acc.ags ag }
  | none =>
    match stepLine ag.st l with
    | .ok s' => { acc with ags := setAg acc.ags { ag with st := s' }, n := acc.n + 1 }
    | .error e => { acc with ags := setAg acc.ags ag, err := some (acc.n, l.raw ++ " : " ++ e) }

def pcName : Pc → String
  | .idle => "idle" | .sleeping => "sleeping" | .sLock => "sLock" | .sHold => "sHold"
  | .sWait b => s!"sWait({b})" | .sHold2 => "sHold2" | .rLock _ => "rLock" | .rHold _ => "rHold"
  | .rWait _ b => s!"rWait({b})" | .rSet _ => "rSet" | .rDone _ => "rDone"

def runCase (c : Case) : String :=
  let hm := c.lines.filter (·.startsWith "monitor ")
  let evl := c.lines.filter (fun l => !(l.startsWith "monitor ") && !(l.startsWith "note "))
  let parsed := evl.map parseLine
  if parsed.any Option.isNone then s!"case {c.id} reject 0 malformed-line" else
  let ls := parsed.filterMap id
  let acc := ls.foldl feed {}
  let tids := (ls.map (·.tid)).eraseDups
  -- log form of `C07h_returned_resume_not_lost`: as many resume()/abort() returns as suspensions, yet the owner
  -- is still inside its wait and nobody stored running_ = true since it suspended
  let lost := acc.ags.filter (fun a => a.parked && !a.goSince && a.parks ≤ a.rets)
  let lostM := lost.map (fun a =>
    s!"lost wake-up: agent {a.obj}: {a.rets} resume()/abort() call(s) returned for {a.parks} suspension(s), yet its owner is blocked in suspend() with running_ == false and no resume in flight")
  let mons := hm ++ acc.mons.eraseDups ++ lostM
  let okStatus := c.status == "ok"
  let monS := if mons.isEmpty && okStatus then "monitors ok"
    else "monitors FAIL: " ++ " | ".intercalate (mons ++ (if okStatus then [] else [s!"run ended with status '{c.status}'"]))
  match acc.err with
  | some (i, raw) => s!"case {c.id} reject {i} [{raw}] ; {monS}"
  | none =>
    -- final state against the end status: after `end ok` every thread is outside every agent
    let busy := acc.ags.foldl (fun r a => r ++ (tids.filter (fun t => a.st.pc t != .idle)).map
      (fun t => s!"agent {a.obj} thread {t} at {pcName (a.st.pc t)}")) []
    let fin := if !okStatus || busy.isEmpty then "final ok" else s!"final MISMATCH: {busy.take 4}"
    s!"case {c.id} accept {acc.n} ; {fin} ; {monS}"

end Driver.AgentDrv
