import PikaVerif.Model.Once
import Driver.Util
/-! Driver for the event / call_once model (C09): parser, acceptor run, independent monitors. -/
namespace Driver.OnceDrv
open PikaVerif PikaVerif.Once Driver

/-- Collect the `cv.popall` + `ag.resume` pairs that follow a `cv.all` line of thread `t`. -/
def takePairs (t : Nat) : Nat → List Line → List Nat → Option (List Nat × List Line)
  | 0, rest, acc => some (acc.reverse, rest)
  | k + 1, p :: r :: rest, acc =>
    if p.tid == t && p.site == "cv.popall" && p.a == (k : Int) && r.tid == t && r.site == "ag.resume" then
      takePairs t k rest (r.a.toNat :: acc)
    else none
  | _, _, _ => none

/-- Translate hook lines to model events.  Dropped as stutter: `sl.lock` / `ag.yield` (spinning
    on the internal lock) and the grant lines of preemption points that are immediately followed
    by a payload line of the same access (`event.wait`, `event.set`, `once.cas`, `once.reset`,
    `once.done`, `once.fail`), and the harness' `once.body.end` note.  `cv.all n` must be
    followed immediately by n pairs `cv.popall`, `ag.resume` of the same thread and is merged
    with them. -/
partial def toEvents : List Line → List (Option Ev × String) → List (Option Ev × String)
  | [], acc => acc.reverse
  | l :: rest, acc =>
    let t := l.tid
    let push (e : Ev) := toEvents rest ((some e, l.raw) :: acc)
    let bad (_ : Unit) := toEvents rest ((none, l.raw) :: acc)
    match l.site with
    | "sl.lock" | "ag.yield" | "event.wait" | "event.set" | "event.inlock" | "once.cas" | "once.reset" | "once.done"
    | "once.fail" | "once.body.end" => toEvents rest acc
    -- agent=task runs (follow-up C09p), see LatchDrv: statistics line / fall-back marker
    | "tk.stat" | "tk.fallback" => toEvents rest acc
    | "inv.ewait" => push (.inv t .wait)
    | "inv.eset" => push (.inv t .set)
    | "inv.ereset" => push (.inv t .reset)
    | "inv.eocc" => push (.inv t .occ)
    | "inv.call" => push (.inv t (.call (l.a != 0)))
    | "ret" => if l.a < 0 then bad () else push (.ret t l.a.toNat)
    | "sl.acq" => push (.slAcq t)
    | "sl.rel" => push (.slRel t)
    | "event.load" => push (.evLoad t (l.a != 0))
    | "event.pass" => push (.evLoadL t (l.a != 0))
    | "event.stored" => push (.stored t (l.a != 0))
    | "cv.enq" =>
      -- the loop condition of `wait_locked` was read false immediately before (same atomic block;
      -- the one-line loop cannot take a hook of its own)
      if l.b != 0 then bad () else
      toEvents rest ((some (.cvEnq t l.a.toNat), l.raw) :: (some (.evLoadL t false), l.raw ++ " (loop condition read false)") :: acc)
    | "cv.woke" => if l.b != 0 then bad () else push (.cvWoke t (l.a != 0))
    | "ag.suspend" => push (.suspend t)
    | "ag.woke" => push (.woke t)
    | "once.load" => push (.onceLoad t)
    | "once.won" => push (.onceWon t)
    | "once.lost" => push (.onceLost t (l.a != 0))
    | "once.body" => push (.body t (l.a != 0))
    | "once.stored" => push (.onceStored t (l.a != 0))
    | "done" => push (.done t)
    | "cv.all" =>
      if l.a < 0 then bad () else
      match takePairs t l.a.toNat rest [] with
      | some (tgts, rest') =>
        toEvents rest' ((some (.notifyAll t tgts), l.raw ++ s!" + {tgts.length} resumes") :: acc)
      | none => bad ()
    | _ => bad ()

def accept (s : St) : List (Option Ev × String) → Nat → Except (Nat × String) St
  | [], _ => .ok s
  | (none, raw) :: _, i => .error (i, "unparsed: " ++ raw)
  | (some e, raw) :: rest, i =>
    match step s e with
    | some s' => accept s' rest (i + 1)
    | none => .error (i, raw)

def pcClass (s : St) (t : Nat) : String :=
  match s.pc t with
  | .idle => "idle"
  | .fin => "fin"
  | .susp _ false => if s.tok t == 0 then "blocked" else "enabled"
  | _ => "enabled"

/-- Independent monitors on the raw event list (tests, not proofs).  They look only at the
    harness' own observables (invocations, returns, callable entry / exit, parked threads) and
    at the value lines of the flag. -/
structure Mon where
  flag : Bool := false            -- last value stored into the event flag
  everSet : Bool := false
  resets : Nat := 0               -- stand-alone resets
  curOp : Nat → String := fun _ => ""
  parked : Nat → Bool := fun _ => false
  inBody : Nat := 0               -- callables entered and not yet left
  okDone : Nat := 0               -- callables that ran to completion
  okStarted : Nat := 0            -- non-throwing callables entered
  viol : List String := []

def monStep (m : Mon) (l : Line) : Mon :=
  let t := l.tid
  match l.site with
  | "inv.ewait" | "inv.eset" | "inv.ereset" | "inv.eocc" | "inv.call" => { m with curOp := upd m.curOp t l.site }
  | "event.stored" =>
    let m := { m with flag := l.a != 0, everSet := m.everSet || l.a != 0 }
    if m.curOp t == "inv.ereset" then { m with resets := m.resets + 1 } else m
  | "ag.suspend" => { m with parked := upd m.parked t true }
  | "ag.woke" => { m with parked := upd m.parked t false }
  | "tk.spurious" => { m with viol := s!"task {t}: the suspension of the pika task ended although no resume had been issued (spurious wake-up of the task agent)" :: m.viol }
  | "tk.diff" => { m with viol := s!"the log of the run on pika tasks differs from the log of the run of the same case on OS threads (first difference at line {l.a}): the behaviour depends on the kind of agent" :: m.viol }
  | "tk.lost" => { m with viol := s!"task {t}: resumed {l.a} time(s) through pika's task agent but the task stays suspended and nothing in the runtime can wake it (lost wake-up of the task agent)" :: m.viol }
  | "once.body" =>
    let v1 := if m.inBody > 0 then [s!"thread {t} entered the call_once callable while another thread is inside it"] else []
    let v2 := if m.okDone > 0 then [s!"thread {t} entered the call_once callable after it had already completed"] else []
    let thr := l.a != 0
    { m with inBody := m.inBody + 1, okStarted := m.okStarted + (if thr then 0 else 1),
             viol := v1 ++ v2 ++ m.viol }
  | "once.body.end" =>
    -- a = 0: the callable returned; a = 1: it is about to throw
    { m with inBody := m.inBody - 1, okDone := m.okDone + (if l.a == 0 then 1 else 0) }
  | "ret" =>
    let op := m.curOp t
    if op == "inv.ewait" then
      if !m.everSet then { m with viol := s!"thread {t}: event::wait returned although the event was never set" :: m.viol } else m
    else if op == "inv.eocc" then
      if (l.a != 0) != m.flag then { m with viol := s!"thread {t}: occurred() returned {l.a} although the flag is {m.flag}" :: m.viol } else m
    else if op == "inv.call" then
      if l.a == 0 && m.okDone != 1 then
        { m with viol := s!"thread {t}: call_once returned normally although the callable has completed {m.okDone} times" :: m.viol }
      else m
    else m
  | _ => m

def monitors (c : Case) (ls : List Line) (n : Nat) : List String :=
  let m := ls.foldl monStep {}
  let endv :=
    if c.status == "deadlock" then
      (List.range n).filterMap (fun t =>
        if m.parked t && m.curOp t == "inv.ewait" && m.flag then
          some s!"thread {t} is blocked in event::wait at quiescence although the event is set (lost waiter)"
        else if m.parked t && m.curOp t == "inv.call" then
          some s!"thread {t} is blocked inside call_once at quiescence (no caller is running the callable)"
        else none)
    else []
  let v3 := if m.okStarted > 1 then [s!"the non-throwing callable was entered {m.okStarted} times"] else []
  let stv := if c.status == "ok" || c.status == "deadlock" then [] else [s!"run ended with status '{c.status}'"]
  m.viol.reverse ++ endv ++ v3 ++ stv

def runCase (c : Case) : String :=
  let n := c.threads.length
  let parsed := c.lines.map parseLine
  if parsed.any Option.isNone then s!"case {c.id} reject 0 malformed-line" else
  let ls := parsed.filterMap id
  let evs := toEvents ls []
  let mon := monitors c ls n
  let monS := if mon.isEmpty then "monitors ok" else "monitors FAIL: " ++ " | ".intercalate mon
  match accept (Once.init n) evs 0 with
  | .error (i, raw) => s!"case {c.id} reject {i} [{raw}] ; {monS}"
  | .ok s =>
    let classes := (List.range n).map (pcClass s)
    let fin :=
      if c.status == "ok" then
        if classes.all (· == "fin") then "final ok" else "final MISMATCH: run ended but model threads " ++ toString classes
      else if c.status == "deadlock" then
        if classes.all (fun x => x == "fin" || x == "blocked" || x == "idle") && s.lock.isNone
        then s!"final stuck blocked={(classes.filter (· == "blocked")).length} flag={s.flag}"
        else "final MISMATCH: implementation is quiescent but model threads " ++ toString classes
      else s!"final status {c.status}"
    s!"case {c.id} accept {evs.length} ; {fin} ; {monS}"

end Driver.OnceDrv
