import PikaVerif.Model.Elastic
import PikaVerif.Gen.ElasticConsts
import Driver.Util
import Driver.SchedDrv
/-! Driver for the `Elastic` model (C19): E2 logs of suspend / resume of pools and PUs.

The log of one run contains the events of every pool.  Pools are independent (no stealing across
pools), so the log is projected per scheduler object and each projection is replayed through the
acceptor.  Queue counter events carry the queue object; `el.qmap` notes (emitted by
`on_start_thread`) map a queue to (worker, kind) and `el.sched` notes give each scheduler's
configuration.  The scheduler-protocol sites of the same log are replayed through the C01/C02
acceptor `Sched` (no-duplication tie). -/
namespace Driver.ElasticDrv
open PikaVerif PikaVerif.Elastic Driver

structure QInfo where
  q : Nat         -- queue object id
  w : Nat
  kind : Nat      -- 0 normal, 1 high priority, 2 low priority (shared)
  raw : Nat       -- raw scheduler pointer
  deriving Repr

structure PInfo where
  obj : Nat
  raw : Nat
  n : Nat
  elastic : Bool
  stealing : Bool
  deriving Repr

def pools (ls : List Line) : List PInfo :=
  ls.foldl (fun acc l =>
    if l.site == "el.sched" && !(acc.any (·.obj == l.obj)) then
      let b := l.b.toNat
      acc ++ [{ obj := l.obj, raw := l.a.toNat, n := b / 256, elastic := b % 2 == 1, stealing := (b / 2) % 2 == 1 }]
    else acc) []

def qmaps (ls : List Line) : List QInfo :=
  ls.foldl (fun acc l =>
    if l.site == "el.qmap" && !(acc.any (·.q == l.obj)) then
      let a := l.a.toNat
      acc ++ [{ q := l.obj, w := a % 65536, kind := a / 65536, raw := l.b.toNat }]
    else acc) []

/-- events of pool `p` denoted by one log line (`none` = malformed, `some []` = not of this pool / stutter) -/
def toEvs (p : PInfo) (qm : List QInfo) (l : Line) : Option (List Ev) :=
  let t := l.tid
  let a := l.a.toNat
  let b := l.b.toNat
  let mine := l.obj == p.obj
  let st (e : Ev) : Option (List Ev) := if mine then some [e] else some []
  match l.site with
  | "el.start" => st (.start t a b)
  | "el.top" => st (.top a (b % 256))
  | "el.qlen" => if a != b then (if mine then none else some []) else st (.qlen t (b / 4294967296) (b % 4294967296))
  | "el.chk" => st (.chk a (b % 256) ((b / 256) % 2 == 1))
  | "el.sleep" => st (.sleep a)
  | "el.wait" => st (.wait a)
  | "el.woke" => st (.woke a)
  | "el.wake" => st (.wake a ((b / 256) % 256) (b % 256))
  | "el.sel" => st (.sel t a (b % 256) ((b / 256) % 256) ((b / 65536) % 2 == 1) ((b / 131072) % 2 == 1))
  | "el.unl" => if a == 255 then some [] else st (.unl t a)
  | "el.slock" => st (.slock t a)
  | "el.sunl" => st (.sunl t a)
  | "el.cas" => st (.cas t a ((b / 256) % 256) (b % 256))
  | "el.sdone" => st (.sdone t a (b % 256))
  | "el.ucas" => st (.ucas t a ((b / 256) % 256) (b % 256))
  | "el.notify" =>
    if !mine then some [] else
    if a == 255 then some ((List.range p.n).map (fun w => Ev.notify t w)) else some [.notify t a]
  | "el.rload" => if a != b then (if mine then none else some []) else st (.rload t (b / 256) (b % 256))
  | "el.refuse" => st (.refuse t)
  | "x.ret" => st (.ret t)
  | "el.inc" | "el.dec" =>
    match qm.find? (·.q == l.obj) with
    | none => none
    | some qi =>
      if qi.raw != p.raw then some [] else
      let up := l.site == "el.inc"
      if qi.kind == 2 then some [if up then .incLow t else .decLow t]
      else some [if up then .inc t qi.w else .dec t qi.w]
  | "el.sched" | "el.qmap" | "x.call" | "x.pool" | "x.phase" => some []
  | _ => none

def acceptEvs (s : St) : List Ev → Option St
  | [] => some s
  | e :: es => match step s e with
    | some s' => acceptEvs s' es
    | none => none

def accept (p : PInfo) (qm : List QInfo) (s : St) : List Line → Nat → Except (Nat × String) St
  | [], _ => .ok s
  | l :: rest, i =>
    match toEvs p qm l with
    | none => .error (i, "unparsed: " ++ l.raw)
    | some evs =>
      match acceptEvs s evs with
      | some s' => accept p qm s' rest (i + 1)
      | none => .error (i, l.raw)

def isEl (l : Line) : Bool := l.site.startsWith "el." || l.site.startsWith "x."

/-- Independent monitors on the raw log (observables only):
    * between a refusal note of an actor and the return of its API call that actor performs no
      locking / state-changing step of the suspend protocol, and the call reports failure;
    * a successful `resume_processing_unit` returns only after its last sample of the worker's state
      was not `sleeping` (the suspend side is checked by the model: `waiters`). -/
def refuseMonitor (ls : List Line) : List String :=
  let (_, _, errs) := ls.foldl (fun (acc : List Nat × List (Nat × Nat) × List String) l =>
    let (refused, last, errs) := acc
    let setLast (v : Nat) := (l.tid, v) :: last.filter (fun p => p.1 != l.tid)
    if l.site == "el.refuse" then (l.tid :: refused, last, errs)
    else if l.site == "x.call" then (refused, setLast 0, errs)
    else if l.site == "el.rload" then (refused, setLast (l.b.toNat % 256), errs)
    else if l.site == "x.ret" then
      let op := l.a.toNat % 256
      let lastV := ((last.find? (fun p => p.1 == l.tid)).map (·.2)).getD 0
      let e1 := if refused.contains l.tid && l.b.toNat != 1 then [s!"refused call of actor {l.tid} returned success"] else []
      let e2 := if l.b.toNat == 0 && op == 2 && lastV == rsSleeping then
          [s!"resume_processing_unit of actor {l.tid} returned although its last sample of the worker was sleeping"] else []
      (refused.erase l.tid, last, errs ++ e1 ++ e2)
    else if refused.contains l.tid && (l.site == "el.slock" || l.site == "el.cas" || l.site == "el.ucas") then
      (refused, last, errs ++ [s!"actor {l.tid} continued with {l.site} on worker {l.a} after its call was refused"])
    else (refused, last, errs)) ([], [], [])
  errs.take 3

def runCase (c : Case) : String :=
  let mons := c.lines.filter (·.startsWith "monitor ")
  let evl := c.lines.filter (fun l => !(l.startsWith "monitor "))
  let parsed := evl.map parseLine
  if parsed.any Option.isNone then s!"case {c.id} reject 0 malformed-line" else
  let ls := parsed.filterMap id
  let els := ls.filter isEl
  let sls := ls.filter (fun l => !isEl l)
  let ps := pools els
  let qm := qmaps els
  let rmon := refuseMonitor els
  let allMon := mons ++ rmon.map (fun m => "monitor " ++ m) ++
    (if c.status == "ok" then [] else [s!"run ended with status '{c.status}'"])
  let monS := if allMon.isEmpty then "monitors ok" else "monitors FAIL: " ++ " | ".intercalate allMon
  -- scheduler protocol (C01 token discipline) on the same log
  -- `overflow` = the log budget was exhausted (e.g. by a yield-spinning controller task on a slow
  -- machine): the recorded prefix is still replayed, the final-state check is skipped, no verdict
  let budget := c.status == "overflow"
  let monS := if budget && mons.isEmpty && rmon.isEmpty then "monitors ok (log budget exhausted: prefix only)" else monS
  match SchedDrv.accept Sched.init sls 0 with
  | .error (i, raw) => s!"case {c.id} reject {i} [sched: {raw}] ; {monS}"
  | .ok _ =>
    let rec go (ps : List PInfo) (finals : List String) : String :=
      match ps with
      | [] =>
        let fin := if finals.isEmpty then "final ok" else "final MISMATCH: " ++ "; ".intercalate finals
        s!"case {c.id} accept {ls.length} ; {fin} ; {monS}"
      | p :: rest =>
        let cfg : Cfg := { elastic := p.elastic, stealing := p.stealing, last := p.n - 1, refuseReturns := Gen.ElasticConsts.refuseReturns }
        match accept p qm (Elastic.init cfg) els 0 with
        | .error (i, raw) => s!"case {c.id} reject {i} [pool {p.obj}: {raw}] ; {monS}"
        | .ok s =>
          -- a run that ended `ok` leaves every worker running in its loop with empty queues, no
          -- pu mutex held and no suspender waiting
          let bad := (List.range p.n).filter (fun w =>
            let x := s.wk w
            x.st != rsRunning || x.pc != .loop || x.lk.isSome || x.q != 0 || !x.waiters.isEmpty)
          let f := if c.status != "ok" || (bad.isEmpty && s.lowq == 0) then finals
            else finals ++ [s!"pool {p.obj}: workers not at rest {bad}, low priority queue {s.lowq}"]
          go rest f
    if ps.isEmpty then s!"case {c.id} reject 0 [no el.sched record] ; {monS}" else go ps []

end Driver.ElasticDrv
