import PikaVerif.Model.BulkC
import Driver.Util
/-!
Replay of a live bulk trace through the composed model `PikaVerif.BulkC` (C11, follow-up C11c).

Event mapping (hook sites of `thread_pool_scheduler_bulk.hpp` / `contiguous_index_queue.hpp`,
`live.*` lines of `harness/e0/bulk.cpp`):

* `bulk.zero` → `zero`; `bulk.plan cs _` → `plan cs`; `bulk.spawn/skip/task` → `spawn/skip/task`;
* `ciq.loaded f l` → `load k q f l` (the first `ciq.iter` of the operation repeats the loaded
  word and is only compared); a later `ciq.iter f l` is a failed compare-exchange →
  `cas k q false f l`; `ciq.ok f l` → `cas k q true f l`;
* `bulk.chunk` → `chunk`; `live.cbeg i v` → `call k i v`; `live.cret` → `ret k`;
  `live.cthrow` → `throw k`; `live.run first count` (consecutive calls that got the expected
  value pack and returned, observed one by one inside `f`) → `count` × (`call`, `ret`);
* `bulk.exc` → `exc`; `bulk.last / bulk.notlast` → `dec k true/false`; `bulk.decide k b` (logged in
  the `set_error` / `set_value` branch of `finish()`) → `decide k (b ≠ 0)`;
* `live.value v` → `sig false v`; `live.error idx` → `sig true idx`.

The worker `k` of an index-queue / call event is the task the OS thread is running
(`bulk.task` / `bulk.skip`).
-/
namespace Driver.BulkCDrv
open PikaVerif Driver

structure CState where
  st : BulkC.St
  task : Nat → Option Nat := fun _ => none
  skipNext : Nat → Option (Int × Int) := fun _ => none
  nev : Nat := 0
  err : Option String := none

def CState.fail (p : CState) (m : String) : CState := if p.err.isSome then p else { p with err := some m }

def CState.ev (p : CState) (e : BulkC.Ev) (raw : String) : CState :=
  if p.err.isSome then p else
  match BulkC.step p.st e with
  | some s' => { p with st := s', nev := p.nev + 1 }
  | none => p.fail s!"composed model rejects event {p.nev} {repr e} [{raw}]"

def qOf (qobjs : List Nat) (o : Nat) : Option Nat := qobjs.idxOf? o

/-- `count` consecutive calls `first, first+1, …` that returned -/
def runCalls (p : CState) (k : Nat) (tok : Int) (raw : String) : Nat → Int → CState
  | 0, _ => p
  | c + 1, i =>
    if p.err.isSome then p else
    runCalls ((p.ev (.call k i tok) raw).ev (.ret k) raw) k tok raw c (i + 1)

/-- Driver-only storage compaction after a long run of calls: `lp` is a chain of `upd` closures
    (two per call); rebuild it as a table for the workers `u < w`.  `BulkC.step` reads `lp k` only
    under the guard `k < w`, so the acceptor's behaviour does not depend on the values at `u ≥ w`. -/
def compact (p : CState) : CState :=
  let tbl := ((List.range p.st.w).map p.st.lp).toArray
  { p with st := { p.st with lp := fun u => tbl.getD u .out } }

def compStep (qobjs : List Nat) (tok : Int) (p : CState) (l : Line) : CState :=
  if p.err.isSome then p else
  let t := l.tid
  let worker (f : Nat → CState) : CState :=
    match p.task t with
    | some k => f k
    | none => p.fail s!"event of an OS thread that runs no worker task [{l.raw}]"
  match l.site with
  | "bulk.zero" => p.ev .zero l.raw
  | "bulk.plan" => p.ev (.plan l.a.toNat) l.raw
  | "bulk.spawn" => p.ev (.spawn l.a.toNat) l.raw
  | "bulk.skip" => { p.ev (.skip l.a.toNat) l.raw with task := upd p.task t (some l.a.toNat) }
  | "bulk.task" => { p.ev (.task l.a.toNat) l.raw with task := upd p.task t (some l.a.toNat) }
  | "bulk.chunk" => p.ev (.chunk l.b.toNat l.a.toNat) l.raw
  | "bulk.exc" => p.ev (.exc l.a.toNat) l.raw
  | "bulk.last" => p.ev (.dec l.a.toNat true) l.raw
  | "bulk.notlast" => p.ev (.dec l.a.toNat false) l.raw
  | "bulk.decide" => p.ev (.decide l.a.toNat (l.b != 0)) l.raw
  | "live.value" => p.ev (.sig false l.a) l.raw
  | "live.error" => p.ev (.sig true l.a) l.raw
  | "live.cbeg" => worker (fun k => p.ev (.call k l.a l.b) l.raw)
  | "live.cret" => worker (fun k => p.ev (.ret k) l.raw)
  | "live.cthrow" => worker (fun k => p.ev (.throw k) l.raw)
  | "live.run" => worker (fun k =>
      let p' := runCalls p k tok l.raw l.b.toNat l.a
      if l.b ≥ 1024 then compact p' else p')
  | "ciq.loaded" | "ciq.iter" | "ciq.ok" =>
    match p.task t, qOf qobjs l.obj with
    | some k, some q =>
      if l.site == "ciq.ok" then p.ev (.cas k q true l.a l.b) l.raw
      else if l.site == "ciq.loaded" then
        { p.ev (.load k q l.a l.b) l.raw with skipNext := upd p.skipNext t (some (l.a, l.b)) }
      else
        match p.skipNext t with
        | some w =>
          let p := { p with skipNext := upd p.skipNext t none }
          if w == (l.a, l.b) then p else p.fail s!"first loop iteration does not see the loaded word [{l.raw}]"
        | none => p.ev (.cas k q false l.a l.b) l.raw
    | _, _ => p.fail s!"index-queue event outside a worker task or on an unknown queue [{l.raw}]"
  | _ => p

/-- Replays the trace; returns divergences (model ≠ implementation). `ncalls` = number of calls
    of `f` the harness counted. -/
def replay (S : CTy) (w n : Nat) (ls : List Line) (ncalls : Int) : List String := Id.run do
  let find? (site : String) : Option Line := ls.find? (fun l => l.site == site)
  match find? "live.tok" with
  | none => return ["no live.tok line (harness without the C11c call events)"]
  | some tk =>
    let L : Nat := match find? "bulk.local" with
      | some l => l.a.toNat
      | none => 0
    match find? "bulk.local" with
    | some l =>
      if l.a < 0 || l.a.toNat ≥ w then
        return [s!"set_value ran with local worker index {l.a}, which is not a worker of the {w}-worker pool"]
    | none => pure ()
    let qobjs := (ls.filter (·.site == "bulk.initq")).map (·.obj)
    let p0 : CState := { st := BulkC.init S w n L tk.a }
    let p := ls.foldl (compStep qobjs tk.a) p0
    match p.err with
    | some m => return [m]
    | none =>
      let s := p.st
      let mut out : List String := []
      if s.done.length != 1 then
        out := s!"composed model: run ended with {s.done.length} completions" :: out
      if s.ph == 1 && s.p.remaining != 0 then
        out := s!"composed model: run ended with remaining={s.p.remaining}" :: out
      if (s.calls.length : Int) != ncalls then
        out := s!"composed model saw {s.calls.length} calls, the harness counted {ncalls}" :: out
      return out

end Driver.BulkCDrv
