import PikaVerif.Model.Aff
import PikaVerif.Model.AffCmd
import Driver.Util
/-! Driver for the affinity model (C15): recomputes, from the Lean model, every line the E0
    harness `harness/e0/affinity.cpp` prints from the real pika code and compares them;
    independent monitors recompute the property from the implementation's output only. -/
namespace Driver.AffDrv
open PikaVerif PikaVerif.Aff Driver

def dots (s : String) : List Nat :=
  if s.isEmpty then [] else (s.splitOn ".").filterMap (fun x => x.toNat?)

def joinDots (l : List Nat) : String := ".".intercalate (l.map toString)

/-- header `topo=2.2/2.2` (sockets `/`, cores `.`; prefix `np:` = no package objects) -/
def parseTopo (s : String) : Topo × Bool :=
  let np := s.startsWith "np:"
  let pc := s.startsWith "pc:"        -- no core objects: the PUs are counted as cores
  let body := if np || pc then (s.drop 3).toString else s
  let socks := (body.splitOn "/").map dots
  let cores := socks.flatten
  ({ nc := cores.length, pus := fun c => cores.getD c 1,
     socks := if np then [] else socks.map List.length, noCoreObjs := pc }, np)

def kvOf (l : String) : List (String × String) :=
  (l.splitOn " ").filterMap (fun kv => match kv.splitOn "=" with
    | [k, v] => some (k, v)
    | _ => none)

def look (kv : List (String × String)) (k : String) : String :=
  match kv.find? (fun p => p.1 == k) with
  | some p => p.2
  | none => ""

def modeOf (s : String) : Option Mode :=
  match s with
  | "compact" => some .compact
  | "scatter" => some .scatter
  | "balanced" => some .balanced
  | "numa-balanced" => some .numaBalanced
  | _ => none

def errName : Err → String
  | .tooMany => "tooMany"
  | .alreadySet => "alreadySet"
  | .notAllBound => "notAllBound"

def showThreads (n : Nat) (aff : Nat → List Nat) (pn : Nat → Nat) : String :=
  " ".intercalate ((List.range n).map (fun i => s!"{i}:{joinDots (aff i)}:{pn i}"))

def sp (s : String) : String := if s.isEmpty then "" else " " ++ s

def showDec (n : Nat) : Res → String
  | .ok aff pn => "dec ok" ++ sp (showThreads n aff pn)
  | .error e => "dec error " ++ errName e
  | .diverge => "dec diverge"

def showInit (n : Nat) : Bind → String
  | .bound aff pn => "init ok" ++ sp (showThreads n aff pn)
  | .unbound pn => "init unbound" ++ sp (showThreads n (fun _ => []) pn)
  | .error e => "init error " ++ errName e
  | .diverge => "init diverge"

/-- thread entries `i:bits:pu` of an implementation line -/
def parseThreads (l : String) : List (Nat × List Nat × Nat) :=
  ((l.splitOn " ").drop 2).filterMap (fun e => match e.splitOn ":" with
    | [i, b, p] => match i.toNat?, p.toNat? with
      | some i, some p => some (i, dots b, p)
      | _, _ => none
    | _ => none)

/-- property monitor over one implementation result line (observables only) -/
def monitorLine (what mode : String) (n npus : Nat) (use : Bool) (pm : List Nat) (maxc nc : Nat)
    (l : String) : List String :=
  let avail := if use then pm.length else npus
  let ctx := if use then s!"mode {mode}, process mask used"
             else if maxc < n && maxc < nc then s!"mode {mode}, process mask ignored, max_cores below thread count"
             else s!"mode {mode}, process mask ignored"
  if l.startsWith (what ++ " diverge") then [s!"{what}: does not terminate ({ctx})"]
  else if l.startsWith (what ++ " error") then
    if mode == "none" then [s!"{what}: bind=none raised an error"] else []
  else if l.startsWith (what ++ " unbound") then
    let ts := parseThreads l
    (if ts.length != n then [s!"{what}: {ts.length} workers reported for {n} threads"] else []) ++
    ts.filterMap (fun (i, b, _) => if b != [] then some s!"{what}: bind=none but thread {i} has a mask" else none)
  else if l.startsWith (what ++ " ok") then
    let ts := parseThreads l
    let over := if mode != "none" && n > avail then
      [s!"{what}: {n} threads accepted although only {avail} processing units are available ({ctx})"] else []
    let cnt := if ts.length != n then [s!"{what}: {ts.length} workers reported for {n} threads"] else []
    let per := ts.foldl (fun acc (i, b, p) =>
      match b with
      | [q] =>
        (if q ≥ npus then [s!"{what}: thread {i} bound to pu {q} outside the machine ({ctx})"] else []) ++
        (if use && !pm.contains q then [s!"{what}: thread {i} bound to pu {q} outside the process mask ({ctx})"] else []) ++
        (if p != q then [s!"{what}: reported pu {p} of thread {i} differs from bound pu {q} ({ctx})"] else []) ++ acc
      | [] => s!"{what}: thread {i} has an empty mask ({ctx})" :: acc
      | _ => s!"{what}: thread {i} is bound to {b.length} pus ({ctx})" :: acc) []
    let dup := ts.foldl (fun acc (i, b, _) =>
      match ts.find? (fun (j, b', _) => j < i && b' == b && b != []) with
      | some (j, _, _) => s!"{what}: threads {j} and {i} share pu {joinDots b} ({ctx})" :: acc
      | none => acc) []
    over ++ cnt ++ per.reverse ++ dup.reverse
  else [s!"{what}: no result line"]

def firstWith (ls : List String) (p : String) : String :=
  match ls.find? (fun l => l.startsWith p) with
  | some l => l
  | none => ""


/-! ### live cases: the real runtime on the machine the check runs on -/

def bitsS (l : List Nat) : String := joinDots l

/-- pool events of the harness' `rp_callback`, then `configure_pools` -/
def poolEvents (spec : String) (exposed : List Nat) : List Pool.Ev :=
  if spec == "-" then [.setup] else
  let pools := (spec.splitOn "/").map dots
  let rec go : List (List Nat) → Nat → List Pool.Ev
    | [], _ => [.setup]
    | ords :: rest, j =>
      (Pool.Ev.create :: ords.filterMap (fun o => (exposed[o]?).map (fun p => Pool.Ev.add p j))) ++ go rest (j + 1)
  go pools 1

def liveMonitors (bind : String) (use : Bool) (pm : List Nat) (req : Option Nat) (ctx : String)
    (ls : List String) : List String :=
  let hd := firstWith ls "live "
  if hd.startsWith "live error" then [] else
  if hd.startsWith "live diverge" then [s!"live: start-up does not terminate: the starting thread burnt its CPU limit inside pika::init ({ctx})"] else
  if !hd.startsWith "live ok" then [s!"live: no result ({ctx})"] else
  let kv := kvOf hd
  let os0 := look kv "os0"
  let ws := (ls.filter (fun l => l.startsWith "w ")).map (fun l =>
    let k := kvOf l
    (((l.splitOn " ").getD 1 "").toNat?.getD 0, (look k "pool").toNat?.getD 0, (look k "pu").toNat?.getD 0,
      dots (look k "mask"), look k "os"))
  let total := (look kv "threads").toNat?.getD 0
  let c1 := if ws.length != total then [s!"live: {ws.length} workers listed for {total} threads ({ctx})"] else []
  let c2 := match req with
    | some n => if total != n then [s!"live: {total} workers started for {n} requested threads ({ctx})"] else []
    | none => []
  let c3 := ws.foldl (fun acc (g, _, p, m, os) =>
    if bind == "none" then
      (if m != [] then [s!"live: bind=none but worker {g} has mask {bitsS m}"] else []) ++
      (if os != os0 then [s!"live: bind=none but worker {g} runs with affinity {os} (process: {os0})"] else []) ++ acc
    else
      (if m != [p] then [s!"live: worker {g} reports pu {p} but its mask is {bitsS m} ({ctx})"] else []) ++
      (if os != toString p then [s!"live: worker {g} reports pu {p} but its OS thread is bound to {os} ({ctx})"] else []) ++
      (if use && !pm.contains p then [s!"live: worker {g} bound to pu {p} outside the process mask ({ctx})"] else []) ++ acc) []
  let c4 := ws.foldl (fun acc (g, _, p, _, _) =>
    match ws.find? (fun (g', _, p', _, _) => g' < g && p' == p && bind != "none") with
    | some (g', _, _, _, _) => s!"live: workers {g'} and {g} share pu {p} ({ctx})" :: acc
    | none => acc) []
  let c5 := ws.foldl (fun acc (g, _, _, _, _) =>
    if (ws.filter (fun (g', _, _, _, _) => g' == g)).length != 1 then s!"live: worker {g} listed in more than one pool" :: acc else acc) []
  c1 ++ c2 ++ c3.reverse ++ c4.reverse ++ c5.reverse

def threadsArgOf (s : String) : ThreadsArg :=
  if s == "-" then .dflt else if s == "cores" then .cores else if s == "all" then .all
  else .num (s.toNat?.getD 0)

def coresArgOf (s : String) : CoresArg :=
  if s == "-" then .dflt else if s == "all" then .all else .num (s.toNat?.getD 0)

def runLive (c : Case) : String :=
  let tl := firstWith c.lines "topo "
  let tkv := kvOf tl
  let pusL := dots (look tkv "pus")
  let t : Topo := { nc := pusL.length, pus := fun i => pusL.getD i 1, socks := dots (look tkv "socks") }
  let implPm := dots (look tkv "pm")
  let bind := c.get "bind"
  let use := c.getNat "use" != 0
  let pmL := if c.get "mask" == "all" then implPm else dots (c.get "mask")
  let cfg0 : Cfg := { t := t, pm := fun q => pmL.contains q, usePm := use, used := 0, maxCores := 0, n := 0 }
  let thr := c.get "threads"
  -- thread count and `pika.cores` as the command-line model computes them (Model/AffCmd.lean)
  let cmd : Cmd := { threads := threadsArgOf thr,
                     cores := if c.getNat "cores" == 0 then .dflt else .num (c.getNat "cores"),
                     ignoreMask := !use, bind := modeOf bind }
  let cfg : Cfg := (cmdCfg cmd t cfg0.pm).getD cfg0
  let n := cfg.n
  let maxc := cfg.maxCores
  let ctx := s!"bind {bind}, threads {n}, " ++ (if use then "process mask used" else if maxc < n then "process mask ignored, cores below thread count" else "process mask ignored") ++
    (if thr == "all" || thr == "cores" then s!", --pika:threads={thr}" else "")
  let mon := liveMonitors bind use pmL (if maxc < n && !use then some n else some n) ctx c.lines
  let monS := if mon.isEmpty then "monitors ok" else "monitors FAIL: " ++ " | ".intercalate mon
  let hd := firstWith c.lines "live "
  let os0 := look (kvOf hd) "os0"
  if c.status != "ok" then s!"case {c.id} reject 0 [end {c.status}] ; monitors FAIL: live: runtime start ended with '{c.status}' ({ctx})" else
  let b := affInit (if bind == "none" then none else modeOf bind) cfg
  let npus := numPus t
  let expect : List String :=
    match b with
    | .error e => ["live error " ++ errName e]
    | .diverge => ["live diverge"]
    | .bound aff _ =>
      let exposed := (List.range npus).filter (fun q => (List.range n).any (fun i => (aff i).contains q))
      match runLog Pool.step (Pool.init exposed n) (poolEvents (c.get "pools") exposed) with
      | none => ["live error"]
      | some s =>
        let ws := ((List.range s.npools).map (fun i => (s.pool i).map (fun p => (i, p)))).flatten
        s!"live ok threads={ws.length} pools={s.npools} os0={os0}" ::
          (List.range ws.length).map (fun g => match ws[g]? with
            | some (i, p) => s!"w {g} pool={i} pu={p} mask={p} os={p}"
            | none => "")
    | .unbound pn =>
      let exposed := (List.range npus).filter (fun q => (List.range n).any (fun i => pn i == q))
      match runLog Pool.step (Pool.init exposed n) (poolEvents (c.get "pools") exposed) with
      | none => ["live error"]
      | some s =>
        let ws := ((List.range s.npools).map (fun i => (s.pool i).map (fun p => (i, p)))).flatten
        s!"live ok threads={ws.length} pools={s.npools} os0={os0}" ::
          (List.range ws.length).map (fun g => match ws[g]? with
            | some (i, p) => s!"w {g} pool={i} pu={p} mask= os={os0}"
            | none => "")
  let impl := c.lines.filter (fun l => l.startsWith "live " || l.startsWith "w ")
  let same := if expect == ["live error"] then hd.startsWith "live error" else impl == expect
  if same then s!"case {c.id} accept {impl.length} ; final ok ; {monS}"
  else
    let firstDiff := ((impl.zip expect).find? (fun (a, b) => a != b)).getD (toString impl.length ++ " lines", toString expect.length ++ " lines")
    s!"case {c.id} reject 0 [live: model '{firstDiff.2}' impl '{firstDiff.1}'] ; {monS}"

/-! ### command-line layer (harness/e0/affinity_cmd.cpp): `command_line_handling::call` +
    `affinity_data::init` under synthetic machines -/

def runCmd (c : Case) : String :=
  let (t, np) := parseTopo (c.get "topo")
  let use := c.getNat "use" != 0
  let bind := c.get "bind"
  let thr := c.get "threads"
  let reqPm := if c.get "mask" == "all" then List.range (numPus t) else dots (c.get "mask")
  let cmd : Cmd := { threads := threadsArgOf thr, cores := coresArgOf (c.get "cores"),
                     ignoreMask := !use, bind := modeOf bind }
  let tl := firstWith c.lines "topo "
  let implCmd := firstWith c.lines "cmd "
  let implInit := firstWith c.lines "init "
  let tkv := kvOf tl
  let implPm := dots (look tkv "pm")
  let npus := (look tkv "npus").toNat?.getD 0
  let ckv := kvOf implCmd
  let implN := (look ckv "threads").toNat?.getD 0
  let implCores := (look ckv "cores").toNat?.getD 0
  let implUse := look ckv "use" != "0"
  if c.status != "ok" then s!"case {c.id} reject 0 [end {c.status}] ; monitors FAIL: cmd: harness ended with '{c.status}'" else
  -- monitors: observables of the implementation only
  let kw := thr == "-" || thr == "cores" || thr == "all"
  let m1 := if implCmd.startsWith "cmd ok" then
      (if implUse != use then [s!"cmd: use_process_mask is {implUse} for a request with ignore-process-mask={!use}"] else []) ++
      (match thr.toNat? with
       | some k => if implN != k then [s!"cmd: {implN} threads configured for --pika:threads={k}"] else []
       | none => []) ++
      (if kw && implInit.startsWith "init error tooMany" then
        [s!"cmd: thread-count keyword '{thr}' gives {implN} threads, rejected as oversubscription (bind {bind})"] else []) ++
      monitorLine "init" bind implN npus implUse implPm implCores ((look tkv "nc").toNat?.getD 0) implInit
    else if implCmd.startsWith "cmd error" then
      (if kw then [s!"cmd: start-up with --pika:threads={thr} rejected as zero threads (bind {bind})"]
       else if thr != "0" then [s!"cmd: command line with --pika:threads={thr} rejected"] else [])
    else [s!"cmd: no result line"]
  let monS := if m1.isEmpty then "monitors ok" else "monitors FAIL: " ++ " | ".intercalate m1
  match cmdCfg cmd t (fun q => reqPm.contains q) with
  | none =>
    if implCmd.startsWith "cmd error zeroThreads" then s!"case {c.id} accept 1 ; final ok ; {monS}"
    else s!"case {c.id} reject 0 [model 'cmd error zeroThreads' impl '{implCmd}'] ; {monS}"
  | some cfg =>
    let topoExp := s!"topo nc={t.nc} npus={numPus t} ns={if np then 0 else t.socks.length} pus={joinDots ((List.range t.nc).map t.pus)} socks={joinDots t.socks} pm={joinDots reqPm} hwc={numPus t}"
    let cmdExp := s!"cmd ok threads={cfg.n} cores={cfg.maxCores} use={if use then 1 else 0} bind={bind}"
    let initExp := match affInitMasks cmd.bind cfg with
      | .bound aff pn => (if bind == "none" then "init unbound" else "init ok") ++ sp (showThreads cfg.n aff pn)
      | b => showInit cfg.n b
    if implCmd != cmdExp then s!"case {c.id} reject 0 [model '{cmdExp}' impl '{implCmd}'] ; {monS}"
    else if tl != topoExp then s!"case {c.id} reject 0 [topology: model '{topoExp}' impl '{tl}'] ; {monS}"
    else if implInit != initExp then s!"case {c.id} reject 1 [model '{initExp}' impl '{implInit}'] ; {monS}"
    else s!"case {c.id} accept 2 ; final ok ; {monS}"

def runCase (c : Case) : String :=
  if c.get "kind" == "live" then runLive c else
  if c.get "kind" == "cmd" then runCmd c else
  let (t, np) := parseTopo (c.get "topo")
  let mode := c.get "mode"
  let n := c.getNat "n"
  let use := c.getNat "use" != 0
  let used := c.getNat "used"
  let maxc := c.getNat "maxc"
  let tl := firstWith c.lines "topo "
  let tkv := kvOf tl
  let implPm := dots (look tkv "pm")
  let npus := (look tkv "npus").toNat?.getD 0
  let reqPm := if c.get "mask" == "all" then List.range (numPus t) else dots (c.get "mask")
  -- 1. topology accessors
  let topoExp := s!"topo nc={t.nc} npus={numPus t} ns={if np then 0 else t.socks.length} pus={joinDots ((List.range t.nc).map t.pus)} socks={joinDots t.socks} pm={joinDots reqPm} hwc={numPus t}"
  if c.status != "ok" then s!"case {c.id} reject 0 [end {c.status}] ; monitors FAIL: harness ended with '{c.status}'" else
  if tl != topoExp then s!"case {c.id} reject 0 [topology: model '{topoExp}' impl '{tl}'] ; monitors ok" else
  let cfg : Cfg := { t := t, pm := fun q => reqPm.contains q, usePm := use, used := used, maxCores := maxc, n := n }
  if mode == "topo" then
    let bad := c.lines.filterMap (fun l =>
      match l.splitOn " " with
      | ["pu", cs, ps, _, _, _] =>
        match cs.toNat?, ps.toNat? with
        | some cc, some pp =>
          let e := s!"pu {cc} {pp} {puNumber t cc pp} {joinDots (threadMask t cc pp)} {corePus t cc}"
          if e == l then none else some s!"model '{e}' impl '{l}'"
        | _, _ => some s!"unparsed '{l}'"
      | _ => none)
    let cnt := (c.lines.filter (fun l => l.startsWith "pu ")).length
    match bad with
    | [] => s!"case {c.id} accept {cnt} ; final ok ; monitors ok"
    | b :: _ => s!"case {c.id} reject 0 [accessor: {b}] ; monitors ok"
  else
  let implDec := firstWith c.lines "dec "
  let implInit := firstWith c.lines "init "
  let md := modeOf mode
  let modelDec := match md with
    | some m => showDec n (decode m cfg)
    | none => "dec skip"
  let modelInit := if mode == "none" then
      (match affInitMasks none cfg with
       | .bound aff pn => "init unbound" ++ sp (showThreads n aff pn)
       | b => showInit n b) else
    match md with
    | some m => showInit n (affInit (some m) cfg)
    | none => "init ?"
  -- `used_cores ≠ 0` is never passed by pika (init_runtime passes the literal 0): such cases
  -- only exercise the model/code correspondence, the property is not evaluated on them
  let mon := if used != 0 && !use then [] else
             (if mode == "none" then [] else monitorLine "dec" mode n npus use implPm maxc t.nc implDec) ++
             monitorLine "init" mode n npus use implPm maxc t.nc implInit
  let monS := if mon.isEmpty then "monitors ok" else "monitors FAIL: " ++ " | ".intercalate mon
  if implDec != modelDec then s!"case {c.id} reject 0 [model '{modelDec}' impl '{implDec}'] ; {monS}"
  else if implInit != modelInit then s!"case {c.id} reject 1 [model '{modelInit}' impl '{implInit}'] ; {monS}"
  else s!"case {c.id} accept 2 ; final ok ; {monS}"

end Driver.AffDrv
