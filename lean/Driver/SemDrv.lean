import PikaVerif.Model.Sem
import Driver.Util
/-! Driver for the semaphore model (C08): parser, acceptor run, independent monitors. -/
namespace Driver.SemDrv
open PikaVerif PikaVerif.Sem Driver

/-- Translate hook lines to model events.  `sl.lock` / `ag.yield` (spinning on the internal
    lock) carry no state change and are dropped; `cv.pop` must be followed immediately by the
    agent call of the same thread and is merged with it. -/
partial def toEvents : List Line → List (Option Ev × String) → List (Option Ev × String)
  | [], acc => acc.reverse
  | l :: rest, acc =>
    let t := l.tid
    let push (e : Ev) := toEvents rest ((some e, l.raw) :: acc)
    match l.site with
    | "sl.lock" | "ag.yield" => toEvents rest acc
    | "inv.acq" => push (.inv t .acq)
    | "inv.tryacq" => push (.inv t .tryq)
    | "inv.timed" => push (.inv t .timed)
    | "inv.rel" => push (.inv t (.rel l.a.toNat))
    | "ret" => push (.ret t (l.a != 0))
    | "sl.acq" => push (.slAcq t)
    | "sl.rel" => push (.slRel t)
    | "cv.enq" => push (.cvEnq t l.a.toNat (l.b != 0))
    | "cv.none" => push (.cvNone t)
    | "cv.woke" => push (.cvWoke t (l.a != 0) (l.b != 0))
    | "sem.take" => if l.b == 1 then push (.take t l.a) else toEvents rest ((none, l.raw) :: acc)
    | "sem.add" => if l.b < 0 then toEvents rest ((none, l.raw) :: acc) else push (.add t l.a l.b.toNat)
    | "ag.suspend" => push (.suspend t)
    | "ag.woke" => push (.woke t)
    | "ag.sleep" => push (.sleep t)
    | "ag.timeout" => push (.timeout t)
    | "done" => push (.done t)
    | "cv.pop" =>
      match rest with
      | r :: rest' =>
        if r.tid == t && r.site == "ag.resume" then
          toEvents rest' ((some (.popResume t l.a.toNat r.a.toNat false), l.raw ++ " + " ++ r.raw) :: acc)
        else if r.tid == t && r.site == "ag.resume.dropped" then
          toEvents rest' ((some (.popResume t l.a.toNat r.a.toNat true), l.raw ++ " + " ++ r.raw) :: acc)
        else toEvents rest ((none, l.raw) :: acc)
      | [] => toEvents rest ((none, l.raw) :: acc)
    | _ => toEvents rest ((none, l.raw) :: acc)

/-- Run the acceptor; returns the final state or the index and text of the rejected event. -/
def accept (s : St) : List (Option Ev × String) → Nat → Except (Nat × String) St
  | [], _ => .ok s
  | (none, raw) :: _, i => .error (i, "unparsed: " ++ raw)
  | (some e, raw) :: rest, i =>
    match step s e with
    | some s' => accept s' rest (i + 1)
    | none => .error (i, raw)

def pcClass (s : St) (t : Nat) : String :=
  match s.pc t with
  | .idle => "idle"
  | .fin => "fin"
  | .susp false => if s.tok t == 0 then "blocked" else "enabled"
  | _ => "enabled"

/-- Independent monitors on the raw event list (tests, not proofs; used to turn a broken
    correspondence into a concrete violation). -/
structure Mon where
  init : Int
  added : Int := 0
  takes : Int := 0
  tookOp : Nat → Bool := fun _ => false
  curOp : Nat → String := fun _ => ""
  sawTimeout : Nat → Bool := fun _ => false
  parked : Nat → Bool := fun _ => false      -- inside ag.suspend without a later ag.woke
  viol : List String := []

def monStep (m : Mon) (l : Line) : Mon :=
  let t := l.tid
  match l.site with
  | "inv.acq" | "inv.tryacq" | "inv.timed" | "inv.rel" =>
    { m with tookOp := upd m.tookOp t false, curOp := upd m.curOp t l.site,
             sawTimeout := upd m.sawTimeout t false }
  | "sem.add" =>
    let m := { m with added := m.added + l.b }
    if l.a != m.init + m.added - m.takes then
      { m with viol := s!"count {l.a} after release differs from initial+released-acquired = {m.init + m.added - m.takes}" :: m.viol }
    else m
  | "sem.take" =>
    let m := { m with takes := m.takes + l.b, tookOp := upd m.tookOp t true }
    let v1 := if m.takes > m.init + m.added then
      [s!"acquisitions {m.takes} exceed initial+released {m.init + m.added}"] else []
    let v2 := if l.a != m.init + m.added - m.takes then
      [s!"count {l.a} after acquire differs from initial+released-acquired = {m.init + m.added - m.takes}"] else []
    { m with viol := v1 ++ v2 ++ m.viol }
  | "cv.woke" => if l.a != 0 then { m with sawTimeout := upd m.sawTimeout t true } else m
  | "ag.suspend" => { m with parked := upd m.parked t true }
  | "ag.woke" => { m with parked := upd m.parked t false }
  | "ret" =>
    let op := m.curOp t
    let r := l.a != 0
    let v1 := if (op == "inv.acq" || op == "inv.tryacq" || op == "inv.timed") && r != m.tookOp t then
      [s!"thread {t}: {op} returned {r} but consumed-a-permit = {m.tookOp t}"] else []
    let v2 := if op == "inv.timed" && !r && !m.sawTimeout t then
      [s!"thread {t}: timed acquire returned false although it was notified before its deadline (never observed a timeout with its entry still queued)"] else []
    { m with viol := v1 ++ v2 ++ m.viol }
  | _ => m

def monitors (c : Case) (ls : List Line) (n : Nat) : List String :=
  let m := ls.foldl monStep { init := c.getInt "init" }
  let avail := m.init + m.added - m.takes
  let endv :=
    if c.status == "deadlock" then
      (List.range n).filterMap (fun t =>
        if m.parked t && m.curOp t == "inv.acq" && avail ≥ 1 then
          some s!"thread {t} is blocked in acquire at quiescence although {avail} permit(s) are available"
        else none)
    else []
  let stv := if c.status == "ok" || c.status == "deadlock" then [] else [s!"run ended with status '{c.status}'"]
  m.viol.reverse ++ endv ++ stv

def runCase (c : Case) : String :=
  let n := c.threads.length
  let parsed := c.lines.map parseLine
  if parsed.any Option.isNone then s!"case {c.id} reject 0 malformed-line" else
  let ls := parsed.filterMap id
  let evs := toEvents ls []
  let mon := monitors c ls n
  let monS := if mon.isEmpty then "monitors ok" else "monitors FAIL: " ++ " | ".intercalate mon
  match accept (Sem.init n (c.getInt "init")) evs 0 with
  | .error (i, raw) => s!"case {c.id} reject {i} [{raw}] ; {monS}"
  | .ok s =>
    let classes := (List.range n).map (pcClass s)
    let fin :=
      if c.status == "ok" then
        if classes.all (· == "fin") then "final ok" else "final MISMATCH: run ended but model threads " ++ toString classes
      else if c.status == "deadlock" then
        if classes.all (fun x => x == "fin" || x == "blocked" || x == "idle") && s.lock.isNone
        then s!"final stuck blocked={(classes.filter (· == "blocked")).length} value={s.value}"
        else "final MISMATCH: implementation is quiescent but model threads " ++ toString classes
      else s!"final status {c.status}"
    s!"case {c.id} accept {evs.length} ; {fin} ; {monS}"

end Driver.SemDrv
