import PikaVerif.Model.Mpi
import Driver.Util
import Std.Data.HashMap
/-!
Driver for the MPI request model (C20): E2 logs of `harness/e2/mpi.cpp`.

The hooks identify an operation by the address of its `operation_state` (log column `obj`) and a
registry entry by its `MPI_Request` handle (column `a`); both are reused over time, and the
registry tail events (`mpi.ifdec`, `mpi.call`, `mpi.ret`, `mpi.gacdec`) are identified by the acting
OS thread.  The resolver below turns them into the model's never-reused operation numbers:

* `mpi.post` starts a new operation at that address;
* `mpi.reg` .. `mpi.enq` belong to the operation the same thread announced with `mpi.reg`;
* `mpi.q2v`, `mpi.ready`, `mpi.testany` name the handle of an entry in the queue / the vector.  MPI frees
  a handle inside `MPI_Test*`, before the poller logs `mpi.ready`, so a new operation may already have
  been given (and have registered) the same handle: `mpi.q2v` means the oldest entry with that handle
  that is still in the queue, `mpi.ready` / `mpi.testany` the oldest one that is in the vector;
* `mpi.deq` names a (possibly stale, hence ambiguous) handle: it is resolved by the address of the
  next callback body (`mpi.cb`) the same thread enters;
* the tail events belong to the entry the thread took last.

A wrong resolution can only make the model reject (the model checks stage, actor and status of the
named operation, the resolver checks the handles).
-/
namespace Driver.MpiDrv
open PikaVerif PikaVerif.Mpi Driver Std

instance : Inhabited Line := ⟨{ tid := 0, site := "", obj := 0, a := 0, b := 0, raw := "" }⟩

structure R where
  opOf : HashMap Nat Nat := {}          -- op_state address id ↦ current operation
  handleOf : HashMap Nat Nat := {}      -- operation ↦ request handle
  signalled : HashMap Nat Bool := {}    -- operation ↦ a signal has been seen
  nextOp : Nat := 0
  regOf : HashMap Nat Nat := {}         -- actor ↦ operation being registered
  live : HashMap Nat (List (Nat × Bool)) := {}   -- handle ↦ operations in the queue (false) / the vector (true)
  rdy : List (Nat × Nat) := []          -- (handle, operation) in the ready queue
  cur : HashMap Nat (Nat × Nat) := {}   -- actor ↦ (operation, handle) taken from the ready queue
  tested : HashMap Nat Nat := {}        -- actor ↦ handle its last `poll_request` found complete (not yet consumed)
  callId : HashMap Nat Nat := {}        -- actor ↦ harness id of the owned argument its MPI callable has just been given
  idOp : HashMap Nat Nat := {}          -- harness id of an owned argument ↦ operation

def eraseFirst (l : List (Nat × Nat)) (p : Nat × Nat) : List (Nat × Nat) := l.erase p

/-- translate one log line into model events (`none` = not translatable = reject) -/
def toEvs (r : R) (l : Line) (nextCb : Option Nat) : Option (R × List Ev) :=
  let t := l.tid
  let a := l.a.toNat
  let b := l.b.toNat
  match l.site with
  | "mpi.post" =>
    let x := r.nextOp
    let mode := b / 4294967296
    let st := b % 4294967296
    -- an owned argument (harness, `x.call`) belongs to the operation whose MPI call this thread has just made
    let idOp := match r.callId.get? t with
      | some id => r.idOp.insert id x
      | none => r.idOp
    some ({ r with opOf := r.opOf.insert l.obj x, handleOf := r.handleOf.insert x a, nextOp := x + 1,
                   callId := r.callId.erase t, idOp := idOp },
          [.post t x ((mode / 8) % 8) (st == 0)])
  | "x.call" => some ({ r with callId := r.callId.insert t a }, [])
  | "x.rel" =>
    -- the destructor of an argument the adaptor owned (decay-copied into `op_state.ts`) has run
    (r.idOp.get? a).map fun x => (r, [.rel t x])
  | "mpi.tested" => some ({ r with tested := r.tested.insert t a }, [])
  | "mpi.eager" =>
    -- the model's `eager` / `ydone` mean "MPI_Test reported the request complete": only emitted when
    -- the same thread's `poll_request` has just logged that for this operation's handle
    match r.opOf.get? l.obj with
    | some x => if r.tested.get? t == r.handleOf.get? x then some ({ r with tested := r.tested.erase t }, [.eager t x]) else none
    | none => none
  | "mpi.ydone" =>
    match r.opOf.get? l.obj with
    | some x => if r.tested.get? t == r.handleOf.get? x then some ({ r with tested := r.tested.erase t }, [.ydone t x]) else none
    | none => none
  | "mpi.woke" => (r.opOf.get? l.obj).map fun x => (r, [.woke t x])
  | "mpi.sig" =>
    let fresh : Bool := match r.opOf.get? l.obj with
      | none => true
      | some x => (r.signalled.getD x false)
    if a == 3 && fresh then
      -- the MPI callable threw before the call: an operation that fails without a request
      let x := r.nextOp
      some ({ r with opOf := r.opOf.insert l.obj x, nextOp := x + 1, signalled := r.signalled.insert x true },
            [.post t x 0 false, .sig t x])
    else
      (r.opOf.get? l.obj).map fun x => ({ r with signalled := r.signalled.insert x true }, [.sig t x])
  | "mpi.reg" =>
    match r.opOf.get? l.obj with
    | some x => if r.handleOf.get? x == some a then some ({ r with regOf := r.regOf.insert t x }, [.reg t x]) else none
    | none => none
  | "mpi.gacinc" =>
    match r.regOf.get? t with
    | some x => if r.handleOf.get? x == some a then some (r, [.gacInc t x]) else none
    | none => none
  | "mpi.ifinc" =>
    match r.regOf.get? t with
    | some x => if r.handleOf.get? x == some a then some (r, [.ifInc t x b]) else none
    | none => none
  | "mpi.enq" =>
    match r.regOf.get? t with
    | some x =>
      if r.handleOf.get? x == some a then
        some ({ r with regOf := r.regOf.erase t, live := r.live.insert a (r.live.getD a [] ++ [(x, b != 0)]) },
              [if b == 0 then .enq t x else .addv t x])
      else none
    | none => none
  | "mpi.lock" => some (r, [.lock t])
  | "mpi.unlock" => some (r, [.unlock t])
  | "mpi.q2v" =>
    let es := r.live.getD a []
    (es.find? (fun p => !p.2)).map fun p =>
      ({ r with live := r.live.insert a (es.map (fun q => if q == p then (q.1, true) else q)) }, [.q2v t p.1])
  | "mpi.ready" =>
    let es := r.live.getD a []
    (es.find? (fun p => p.2)).map fun p =>
      ({ r with live := r.live.insert a (es.erase p), rdy := r.rdy ++ [(a, p.1)] }, [.ready t p.1 b])
  | "mpi.deq" =>
    let byCb : Option Nat := match nextCb with
      | some o => match r.opOf.get? o with
        | some x => if r.rdy.contains (a, x) then some x else none
        | none => none
      | none => none
    let pick : Option Nat := match byCb with
      | some x => some x
      | none => (r.rdy.find? (fun p => p.1 == a)).map (·.2)
    pick.map fun x => ({ r with rdy := r.rdy.erase (a, x), cur := r.cur.insert t (x, a) }, [.deq t x b])
  | "mpi.testany" =>
    let es := r.live.getD a []
    (es.find? (fun p => p.2)).map fun p =>
      ({ r with live := r.live.insert a (es.erase p), cur := r.cur.insert t (p.1, a) }, [.testany t p.1 b])
  | "mpi.ifdec" =>
    match r.cur.get? t with
    | some (x, h) => if h == a then some (r, [.ifDec t x b]) else none
    | none => none
  | "mpi.call" =>
    match r.cur.get? t with
    | some (x, h) => if h == a then some (r, [.call t x]) else none
    | none => none
  | "mpi.cb" => (r.opOf.get? l.obj).map fun x => (r, [.cb t x b])
  | "mpi.ret" =>
    match r.cur.get? t with
    | some (x, h) => if h == a then some (r, [.ret t x]) else none
    | none => none
  | "mpi.gacdec" =>
    match r.cur.get? t with
    | some (x, h) => if h == a then some ({ r with cur := r.cur.erase t }, [.gacDec t x]) else none
    | none => none
  | "mpi.pollon" => some (r, [.pollOn t (a != 0)])
  | "mpi.polloff" => some (r, [.pollOff t])
  | "mpi.stopret" => some (r, [.stopRet t a])
  | "tm.waitret" => some (r, [.waitRet t a b])
  | _ => none

def runEvs (s : St) : List Ev → Option St
  | [] => some s
  | e :: es => match step s e with
    | some s' => runEvs s' es
    | none => none

/-- for every line index: the `obj` of the next `mpi.cb` line of the same thread -/
def nextCbs (ls : Array Line) : Array (Option Nat) := Id.run do
  let mut out : Array (Option Nat) := Array.replicate ls.size none
  let mut m : HashMap Nat Nat := {}
  let n := ls.size
  for k in [0:n] do
    let i := n - 1 - k
    let l := ls[i]!
    if l.site == "mpi.cb" then m := m.insert l.tid l.obj
    out := out.set! i (m.get? l.tid)
  return out

def accept (ls : Array Line) : Except (Nat × String) (St × Nat) := Id.run do
  let ncb := nextCbs ls
  let mut s : St := Mpi.init false
  let mut r : R := {}
  let mut n := 0
  for i in [0:ls.size] do
    let l := ls[i]!
    if l.site.startsWith "x." && l.site != "x.call" && l.site != "x.rel" then continue
    match toEvs r l (ncb[i]!) with
    | none => return .error (i, "unresolved: " ++ l.raw)
    | some (r', evs) =>
      match runEvs s evs with
      | none => return .error (i, l.raw)
      | some s' =>
        s := s'
        r := r'
        n := n + evs.length
  return .ok (s, n)

/-! Independent monitors: simple folds over the raw log (observables only). -/
structure Mon where
  life : HashMap Nat Nat := {}      -- address ↦ 1 posted, 2 signalled
  gacInc : Nat := 0
  gacDec : Nat := 0
  ifInc : Nat := 0
  ifDec : Nat := 0
  calls : Nat := 0
  rets : Nat := 0
  sigs : Nat := 0
  conts : Nat := 0
  done : HashMap Nat Nat := {}      -- handle ↦ MPI completion reports
  called : HashMap Nat Nat := {}    -- handle ↦ callback invocations
  enqd : HashMap Nat Nat := {}      -- handle ↦ registrations
  cbSeen : HashMap Nat Bool := {}   -- address ↦ callback body entered in this life
  postH : HashMap Nat Nat := {}     -- address ↦ handle of the current life
  lastTest : HashMap Nat Nat := {}  -- thread ↦ handle last reported complete by poll_request
  callId : HashMap Nat Nat := {}    -- thread ↦ owned-argument id handed to the MPI callable it is running
  addrId : HashMap Nat Nat := {}    -- address ↦ owned-argument id of the current life
  over : HashMap Nat Bool := {}     -- owned-argument id ↦ its operation's request was reported complete / the operation was signalled
  rels : HashMap Nat Nat := {}      -- owned-argument id ↦ releases
  fails : List String := []

def Mon.fail (m : Mon) (s : String) : Mon := if m.fails.length < 8 then { m with fails := m.fails ++ [s] } else m

def monStep (m : Mon) (l : Line) : Mon :=
  let a := l.a.toNat
  match l.site with
  | "mpi.post" =>
    let m := if m.life.get? l.obj == some 1 then m.fail s!"operation posted again before it completed [{l.raw}]" else m
    let m := match m.callId.get? l.tid with
      | some id => { m with addrId := m.addrId.insert l.obj id, callId := m.callId.erase l.tid }
      | none => { m with addrId := m.addrId.erase l.obj }
    { m with life := m.life.insert l.obj 1, cbSeen := m.cbSeen.insert l.obj false, postH := m.postH.insert l.obj a }
  | "x.call" => { m with callId := m.callId.insert l.tid a }
  | "x.rel" =>
    let m := { m with rels := m.rels.insert a (m.rels.getD a 0 + 1) }
    let m := if m.rels.getD a 0 > 1 then m.fail s!"an owned argument was released twice [{l.raw}]" else m
    if m.over.getD a false then m
    else m.fail s!"arguments released before MPI reported the request complete: owned argument {a} [{l.raw}]"
  | "mpi.tested" => { m with lastTest := m.lastTest.insert l.tid a }
  | "mpi.eager" =>
    let m := match m.addrId.get? l.obj with
      | some id => { m with over := m.over.insert id true }
      | none => m
    if m.lastTest.get? l.tid == m.postH.get? l.obj then { m with lastTest := m.lastTest.erase l.tid }
    else m.fail s!"completion before MPI reported the request complete (early poll) [{l.raw}]"
  | "mpi.ydone" =>
    let m := match m.addrId.get? l.obj with
      | some id => { m with over := m.over.insert id true }
      | none => m
    if m.lastTest.get? l.tid == m.postH.get? l.obj then { m with lastTest := m.lastTest.erase l.tid }
    else m.fail s!"completion before MPI reported the request complete (yield_while) [{l.raw}]"
  | "mpi.sig" =>
    let m := match m.addrId.get? l.obj with
      | some id => { m with over := m.over.insert id true }
      | none => m
    let m := { m with sigs := m.sigs + 1 }
    if a == 3 then { m with life := m.life.insert l.obj 2 }
    else
      let m := if m.life.get? l.obj == some 1 then m
        else m.fail s!"double completion: a second completion signal for one operation [{l.raw}]"
      let m := if (a == 4 || a == 5 || a == 6 || a == 7) && m.cbSeen.getD l.obj false == false then
          m.fail s!"completion signalled before the request's callback ran [{l.raw}]" else m
      { m with life := m.life.insert l.obj 2 }
  | "mpi.cb" =>
    let m := match m.addrId.get? l.obj with
      | some id => { m with over := m.over.insert id true }
      | none => m
    { m with cbSeen := m.cbSeen.insert l.obj true }
  | "x.cont" => { m with conts := m.conts + 1 }
  | "mpi.gacinc" => { m with gacInc := m.gacInc + 1 }
  | "mpi.gacdec" => { m with gacDec := m.gacDec + 1 }
  | "mpi.ifinc" => { m with ifInc := m.ifInc + 1 }
  | "mpi.ifdec" => { m with ifDec := m.ifDec + 1 }
  | "mpi.enq" => { m with enqd := m.enqd.insert a (m.enqd.getD a 0 + 1) }
  | "mpi.ready" => { m with done := m.done.insert a (m.done.getD a 0 + 1) }
  | "mpi.testany" => { m with done := m.done.insert a (m.done.getD a 0 + 1) }
  | "mpi.call" =>
    let c := m.called.getD a 0 + 1
    let m := { m with calls := m.calls + 1, called := m.called.insert a c }
    let m := if m.done.getD a 0 < c then m.fail s!"callback invoked before MPI reported the request complete [{l.raw}]" else m
    if m.enqd.getD a 0 < c then m.fail s!"callback invoked more often than the request was registered [{l.raw}]" else m
  | "mpi.ret" => { m with rets := m.rets + 1 }
  | "tm.waitret" =>
    if m.gacInc != m.gacDec || m.ifInc != m.ifDec || m.calls != m.rets then
      m.fail s!"wait() returned with requests in flight (registered {m.gacInc}, released {m.gacDec}, callbacks {m.calls}/{m.rets}) [{l.raw}]"
    else m
  | "mpi.stopret" =>
    if m.ifInc != m.ifDec then
      m.fail s!"stop_polling returned with requests in flight (registered {m.ifInc}, handed over {m.ifDec}) [{l.raw}]"
    else m
  | _ => m

def runCase (c : Case) : String :=
  let mons := c.lines.filter (·.startsWith "monitor ")
  let evl := c.lines.filter (fun l => !(l.startsWith "monitor "))
  let parsed := evl.map parseLine
  if parsed.any Option.isNone then s!"case {c.id} reject 0 malformed-line" else
  let ls := (parsed.filterMap id).toArray
  let m := ls.foldl monStep {}
  let m := if c.status == "ok" && m.sigs != m.conts then
      m.fail s!"{m.sigs} completion signals sent but {m.conts} continuations ran" else m
  let allMon := mons ++ m.fails.map (fun f => "monitor " ++ f) ++
    (if c.status == "ok" then [] else [s!"run ended with status '{c.status}'"])
  let monS := if allMon.isEmpty then "monitors ok" else "monitors FAIL: " ++ " | ".intercalate allMon
  match accept ls with
  | .error (i, raw) => s!"case {c.id} reject {i} [{raw}] ; {monS}"
  | .ok (s, n) =>
    let bad := (List.range s.n).filter (fun x =>
      let o := s.op x
      !(o.pc == .done && (o.rs == .none || o.rs == .gone) && o.sigs == 1))
    let fin := if c.status != "ok" then "final skipped"
      else if bad.isEmpty && s.inFlight == 0 && s.gac == 0 && s.lock.isNone && !s.installed then "final ok"
      else s!"final MISMATCH: operations not settled {bad.take 5} inFlight {s.inFlight} gac {s.gac}"
    s!"case {c.id} accept {n} ; ops {s.n} ; {fin} ; {monS}"

end Driver.MpiDrv
