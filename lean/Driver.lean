import Driver.Util
import Driver.SemDrv
import Driver.SchedDrv
import Driver.ElasticDrv
import Driver.Main
