import Driver.Util
import Driver.SemDrv
import Driver.SSemDrv
import Driver.SchedDrv
import Driver.Main
import Driver.RwDrv
import Driver.SndDrv
import Driver.SharedDrv
