import Driver.Util
import Driver.SemDrv
import Driver.SchedDrv
import Driver.CtxDrv
import Driver.Main
