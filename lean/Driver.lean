import Driver.Util
import Driver.SemDrv
import Driver.AffDrv
import Driver.Main
