import Driver.Util
import Driver.SemDrv
import Driver.StopDrv
import Driver.StopRefDrv
import Driver.Main
