import Driver.Util
import Driver.SemDrv
import Driver.LatchDrv
import Driver.OnceDrv
import Driver.Main
