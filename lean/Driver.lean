import Driver.Util
import Driver.SemDrv
import Driver.RwDrv
import Driver.Main
