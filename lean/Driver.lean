import Driver.Util
import Driver.SemDrv
import Driver.Main
