import Driver.Util
import Driver.SemDrv
import Driver.SSemDrv
import Driver.SchedDrv
import Driver.Main
import Driver.RwDrv
