import Driver.Util
import Driver.SemDrv
import Driver.BarrierDrv
import Driver.Main
