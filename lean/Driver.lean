import Driver.Util
import Driver.SemDrv
import Driver.DequeDrv
import Driver.Main
