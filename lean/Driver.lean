import Driver.Util
import Driver.SemDrv
import Driver.SchedDrv
import Driver.LifeDrv
import Driver.Main
