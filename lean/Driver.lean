import Driver.Util
import Driver.SemDrv
import Driver.MtxDrv
import Driver.Main
