import Driver.Util
import Driver.SemDrv
import Driver.SchedDrv
import Driver.JoinDrv
import Driver.Main
