import Driver.Util
import Driver.SemDrv
import Driver.CVDrv
import Driver.Main
