import Driver.Util
import Driver.SemDrv
import Driver.CfgDrv
import Driver.Main
