import Driver.Util
import Driver.SemDrv
import Driver.SchedDrv
import Driver.MpiDrv
import Driver.Main
