import Driver.Util
import Driver.SemDrv
import Driver.IqDrv
import Driver.BulkDrv
import Driver.Main
