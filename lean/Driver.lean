import Driver.Util
import Driver.SemDrv
import Driver.StopDrv
import Driver.Main
