import Driver.Util
import Driver.SemDrv
import Driver.SchedDrv
import Driver.Main
import Driver.PlaceDrv
