import Driver.Util
import Driver.SemDrv
import Driver.SndDrv
import Driver.SharedDrv
import Driver.Main
