import Driver.Util
import Driver.SemDrv
import Driver.EraseDrv
import Driver.Main
